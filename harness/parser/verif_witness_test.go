package parser

import (
	"fmt"
	"testing"
)

// D12: the list of valid font ids in the "unknown fontID" error is produced in map iteration order
func TestVerifWitness_D12(t *testing.T) {
	fc := &FontConfig{Fonts: map[string]Fonts{"a": {}, "b": {}, "c": {}, "d": {}, "e": {}}}
	seen := map[string]bool{}
	for i := 0; i < 200; i++ {
		_, err := fc.FormatText("x", 100, 0, "nofont", 2)
		if err == nil {
			fmt.Println("WITNESS-PASSES D12 (no error?)")
			return
		}
		seen[err.Error()] = true
	}
	if len(seen) > 1 {
		fmt.Printf("WITNESS-FAILS D12 %d different error texts for the same call, e.g.:\n", len(seen))
		n := 0
		for s := range seen {
			fmt.Println("   ", s)
			if n++; n >= 2 {
				break
			}
		}
	} else {
		fmt.Println("WITNESS-PASSES D12 one error text")
	}
}
