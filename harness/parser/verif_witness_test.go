package parser

import (
	"fmt"
	"testing"

	"github.com/huderlem/poryscript/lexer"
)

// D12: the list of valid font ids in the "unknown fontID" error is produced in map iteration order
func TestVerifWitness_D12(t *testing.T) {
	fc := &FontConfig{Fonts: map[string]Fonts{"a": {}, "b": {}, "c": {}, "d": {}, "e": {}}}
	seen := map[string]bool{}
	for i := 0; i < 200; i++ {
		_, err := fc.FormatText("x", 100, 0, "nofont", 2)
		if err == nil {
			fmt.Println("WITNESS-PASSES D12 (no error?)")
			return
		}
		seen[err.Error()] = true
	}
	if len(seen) > 1 {
		fmt.Printf("WITNESS-FAILS D12 %d different error texts for the same call, e.g.:\n", len(seen))
		n := 0
		for s := range seen {
			fmt.Println("   ", s)
			if n++; n >= 2 {
				break
			}
		}
	} else {
		fmt.Println("WITNESS-PASSES D12 one error text")
	}
}

// ---- format(): line oracle over the built-in TEST font (10 px per rune, 100 px per {CONTROL} code) ----

func verifWordWidth(w string) int {
	n := 0
	depth := 0
	for _, r := range w {
		if r == '{' {
			depth++
			if depth == 1 {
				n += 100
			}
			continue
		}
		if r == '}' && depth > 0 {
			depth--
			continue
		}
		if depth == 0 {
			n += 10
		}
	}
	return n
}

// verifCheckFormat formats text with the TEST font and checks every produced line: it fits maxWidth
// (plus the cursor overlap when the line ends with \l or \p) unless it holds a single word.
func verifCheckFormat(text string, maxWidth, overlap, numLines int) string {
	fc := &FontConfig{}
	out, err := fc.FormatText(text, maxWidth, overlap, "TEST", numLines)
	if err != nil {
		return ""
	}
	for _, line := range splitLines(out) {
		code := ""
		body := line
		for _, c := range []string{`\n`, `\l`, `\p`} {
			if len(line) >= 2 && line[len(line)-2:] == c {
				code, body = c, line[:len(line)-2]
			}
		}
		words := splitWords(body)
		w := 0
		for i, x := range words {
			if i > 0 {
				w += 10
			}
			w += verifWordWidth(x)
		}
		need := w
		if code == `\l` || code == `\p` {
			need += overlap
		}
		if len(words) > 1 && need > maxWidth {
			return fmt.Sprintf("line %q is %d px wide (+%d overlap for %q) > %d; output %q", body, w, need-w, code, maxWidth, out)
		}
	}
	return ""
}

func splitLines(s string) []string {
	var out []string
	cur := ""
	for _, r := range s {
		if r == '\n' {
			out = append(out, cur)
			cur = ""
		} else {
			cur += string(r)
		}
	}
	if cur != "" {
		out = append(out, cur)
	}
	return out
}

func splitWords(s string) []string {
	var out []string
	cur := ""
	depth := 0
	for _, r := range s {
		if r == '{' {
			depth++
		} else if r == '}' && depth > 0 {
			depth--
		}
		if r == ' ' && depth == 0 {
			if cur != "" {
				out = append(out, cur)
			}
			cur = ""
		} else {
			cur += string(r)
		}
	}
	if cur != "" {
		out = append(out, cur)
	}
	return out
}

// D11: an explicit \l on a line before the last line of the box: the prompt is shown, the overlap is not reserved
func TestVerifWitness_D11(t *testing.T) {
	if msg := verifCheckFormat(`ccc ccc \l ddd`, 70, 20, 2); msg != "" {
		fmt.Println("WITNESS-FAILS D11", msg)
	} else {
		fmt.Println("WITNESS-PASSES D11")
	}
}

// TestVerifSearch_C07: bounded search over short texts (bounded stand-in used to look for a failing input)
func TestVerifSearch_C07(t *testing.T) {
	atoms := []string{"a", "bbb", "cccc", `\n`, `\l`, `\p`, `\N`, "{X}", " "}
	found := 0
	var rec func(prefix string, n int)
	rec = func(prefix string, n int) {
		if found >= 3 {
			return
		}
		for _, cfg := range [][3]int{{70, 20, 2}, {50, 10, 1}, {60, 0, 3}, {120, 30, 2}} {
			if msg := verifCheckFormat(prefix, cfg[0], cfg[1], cfg[2]); msg != "" {
				fmt.Printf("FAILING-INPUT text=%q max=%d overlap=%d lines=%d: %s\n", prefix, cfg[0], cfg[1], cfg[2], msg)
				found++
				return
			}
		}
		if n == 0 {
			return
		}
		for _, a := range atoms {
			sep := " "
			if prefix == "" {
				sep = ""
			}
			rec(prefix+sep+a, n-1)
		}
	}
	rec("", 5)
	fmt.Printf("SEARCH-DONE C07 found=%d\n", found)
}

// D10: a negative var_name_arg_position in the command config makes the AutoVar operand lookup index out of range
func TestVerifWitness_D10(t *testing.T) {
	defer func() {
		if r := recover(); r != nil {
			fmt.Printf("WITNESS-FAILS D10 panic: %v\n", r)
		}
	}()
	neg := -1
	cfg := CommandConfig{AutoVarCommands: map[string]AutoVarCommand{"checkitem": {VarNameArgPosition: &neg}}}
	p := New(lexer.New("script S { if (checkitem(ITEM_X, 1) == 1) { a } }"), cfg, "", "", 0, nil)
	_, err := p.ParseProgram()
	fmt.Printf("WITNESS-PASSES D10 (no panic; err=%v)\n", err)
}

// D5: a typed text selected through the '_' fallback of a poryswitch loses its string type
// (contract parsePoryswitchTextStatement/exit[C12:select-text])
func TestVerifWitness_D5(t *testing.T) {
	src := "text T {\n poryswitch(LANG) {\n  EN: \"hello\"\n  _: ascii\"fallback\"\n }\n}\n"
	manual := "text T {\n ascii\"fallback\"\n}\n"
	get := func(s string) (string, string, error) {
		p := New(lexer.New(s), CommandConfig{}, "", "", 0, map[string]string{"LANG": "DE"})
		prog, err := p.ParseProgram()
		if err != nil {
			return "", "", err
		}
		for _, tx := range prog.Texts {
			if tx.Name == "T" {
				return tx.Value, tx.StringType, nil
			}
		}
		return "", "", fmt.Errorf("text T not found")
	}
	v1, t1, err1 := get(src)
	v2, t2, err2 := get(manual)
	if err1 != nil || err2 != nil {
		fmt.Printf("WITNESS-FAILS D5 unexpected errors: %v / %v\n", err1, err2)
		return
	}
	if v1 != v2 || t1 != t2 {
		fmt.Printf("WITNESS-FAILS D5 poryswitch '_' case gives value=%q type=%q, the selected case written directly gives value=%q type=%q\n", v1, t1, v2, t2)
		return
	}
	fmt.Printf("WITNESS-PASSES D5 value=%q type=%q\n", v1, t1)
}

// D13: format() with an unknown *default* font id reports its error at line 0 (zero fontIdToken)
// (obligation parseFormatStringOperator/pre[C18:located]@NewParseError)
func TestVerifWitness_D13(t *testing.T) {
	src := "script S {\n  msgbox(format(\"hello there\"))\n}\n"
	p := New(lexer.New(src), CommandConfig{}, "../font_config.json", "no_such_font", 0, nil)
	_, err := p.ParseProgram()
	pe, ok := err.(ParseError)
	if err == nil || !ok {
		fmt.Printf("WITNESS-PASSES D13 (no located error to judge: %v)\n", err)
		return
	}
	if pe.LineNumberStart < 1 || pe.LineNumberStart > pe.LineNumberEnd || pe.LineNumberEnd > 3 {
		fmt.Printf("WITNESS-FAILS D13 error range %d..%d is not inside the 3-line input: %s\n", pe.LineNumberStart, pe.LineNumberEnd, pe.Message)
		return
	}
	fmt.Printf("WITNESS-PASSES D13 error at lines %d..%d: %s\n", pe.LineNumberStart, pe.LineNumberEnd, pe.Message)
}
