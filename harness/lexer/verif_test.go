package lexer

// Replay / witness harness for the lexer contracts (injected with `go test -overlay`; never written to /repo).
// It runs the real lexer and evaluates the contract clauses of NextToken on concrete inputs.

import (
	"fmt"
	"os"
	"strings"
	"testing"
	"unicode/utf8"

	"github.com/huderlem/poryscript/token"
)

// checkTokenPositions evaluates the [C19:pos]/[C19:pos-illegal]/[C18] clauses of NextToken on one input.
// It returns a description of the first violated clause, or "".
func verifCheckInput(input string) (msg string) {
	defer func() {
		if r := recover(); r != nil {
			msg = fmt.Sprintf("panic: %v", r)
		}
	}()
	l := New(input)
	for n := 0; n < len(input)+3; n++ {
		queued := len(l.queuedTokens) > 0
		before := l.position
		tok := l.NextToken()
		if queued {
			continue
		}
		if tok.Type == token.EOF {
			if tok.EndLineNumber != tok.LineNumber || tok.EndCharIndex != tok.StartCharIndex {
				return fmt.Sprintf("EOF token has non-empty span %+v", tok)
			}
			return ""
		}
		if l.position <= before {
			return fmt.Sprintf("no progress at offset %d for token %+v", before, tok)
		}
		if tok.Type == token.STRING || tok.Type == token.RAWSTRING || tok.Type == token.STRINGTYPE {
			continue
		}
		s := l.position - len(tok.Literal)
		if s < 0 || input[s:l.position] != tok.Literal {
			return fmt.Sprintf("literal %q is not the source text before offset %d", tok.Literal, l.position)
		}
		ls := strings.LastIndexByte(input[:s], '\n') + 1
		line := 1 + strings.Count(input[:s], "\n")
		want := token.Token{Type: tok.Type, Literal: tok.Literal, LineNumber: line, EndLineNumber: line,
			StartCharIndex: s - ls, EndCharIndex: s - ls + len(tok.Literal),
			StartUtf8CharIndex: utf8.RuneCountInString(input[ls:s]), EndUtf8CharIndex: utf8.RuneCountInString(input[ls:s]) + utf8.RuneCountInString(tok.Literal)}
		if tok != want {
			return fmt.Sprintf("token %+v, expected positions %+v", tok, want)
		}
	}
	return "lexer did not reach EOF"
}

func verifWitness(t *testing.T, id, input string) {
	if msg := verifCheckInput(input); msg != "" {
		fmt.Printf("WITNESS-FAILS %s input=%q: %s\n", id, input, msg)
	} else {
		fmt.Printf("WITNESS-PASSES %s input=%q\n", id, input)
	}
}

func TestVerifWitness_D9(t *testing.T)  { verifWitness(t, "D9", "msgbox(\"�\")") }
func TestVerifWitness_D15(t *testing.T) { verifWitness(t, "D15", "x 0x1F") }
func TestVerifWitness_D15b(t *testing.T) { verifWitness(t, "D15b", "0é") }
func TestVerifWitness_D16(t *testing.T) { verifWitness(t, "D16", "a € b") }

// TestVerifSearch_C19: bounded search for a concrete input violating the NextToken clauses
// (all strings over a small alphabet up to length 5, plus seeds). Bounded stand-in, used only to
// look for a failing input after an obligation failed.
func TestVerifSearch_C19(t *testing.T) {
	alphabet := []string{"a", "0", "x", "1", " ", "\n", "=", "!", "-", "(", "\"", "`", "#", "/", "é", "€", "_", "&", "\r"}
	maxLen := 4
	if os.Getenv("VERIF_TIER") == "thorough" {
		maxLen = 5
	}
	found := 0
	var rec func(prefix string, n int)
	rec = func(prefix string, n int) {
		if found >= 3 {
			return
		}
		if msg := verifCheckInput(prefix); msg != "" {
			fmt.Printf("FAILING-INPUT %q: %s\n", prefix, msg)
			found++
			return
		}
		if n == 0 {
			return
		}
		for _, a := range alphabet {
			rec(prefix+a, n-1)
		}
	}
	rec("", maxLen)
	fmt.Printf("SEARCH-DONE C19 found=%d\n", found)
}
