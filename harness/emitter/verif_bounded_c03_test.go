package emitter

// Bounded stand-in for the value-to-body semantics of switch lowering (createSwitchStatementChunks' mapping from case
// values to bodies is covered structurally by contracts, not semantically): every switch with up to N cases, each
// with or without a body, with a default at any position (or none), optionally followed by a statement and placed
// inside a loop with a break, is compiled by the real parser and emitter and run against the source interpreter on
// every value of the switched variable. BOUNDED, not a proof.

import (
	"fmt"
	"os"
	"strings"
	"testing"

	"github.com/huderlem/poryscript/parser"
)

// the known region of D2: a body-less non-default case with no body after it, in a switch whose default has a target
func inKnownD2Region(hasBody []bool, isDefault []bool) bool {
	defaultHasTarget := false
	for k := range isDefault {
		if isDefault[k] {
			for j := k; j < len(hasBody); j++ {
				if hasBody[j] {
					defaultHasTarget = true
				}
			}
		}
	}
	if !defaultHasTarget {
		return false
	}
	for k := range hasBody {
		if isDefault[k] {
			continue
		}
		later := false
		for j := k; j < len(hasBody); j++ {
			if hasBody[j] {
				later = true
			}
		}
		if !later {
			return true
		}
	}
	return false
}

func TestVerifBounded_C03(t *testing.T) {
	maxCases := 3
	if os.Getenv("VERIF_TIER") == "thorough" {
		maxCases = 4
	}
	cases, failing, known := 0, 0, 0
	knownExample := ""
	for n := 1; n <= maxCases; n++ {
		// defPos: -1 none, else index of the default among the n entries
		for defPos := -1; defPos < n; defPos++ {
			for mask := 1; mask < 1<<n; mask++ { // mask 0: no entry has a body; such a switch is a no-op and is left out of the output altogether
				for wrap := 0; wrap < 4; wrap++ { // 0: plain, 1: followed by a statement, 2: inside a loop, bodies ending in break, 3: followed by a statement, even bodies are a lone break
					hasBody := make([]bool, n)
					isDefault := make([]bool, n)
					var sb strings.Builder
					sb.WriteString("switch (var(V)) {\n")
					val := 1
					for k := 0; k < n; k++ {
						hasBody[k] = mask&(1<<k) != 0
						if k == defPos {
							isDefault[k] = true
							sb.WriteString(" default:")
						} else {
							sb.WriteString(fmt.Sprintf(" case %d:", val))
							val++
						}
						if hasBody[k] {
							if wrap == 2 && k%2 == 0 {
								sb.WriteString(fmt.Sprintf(" b%d\n break\n", k))
							} else if wrap == 3 && k%2 == 0 {
								sb.WriteString(" break\n")
							} else {
								sb.WriteString(fmt.Sprintf(" b%d\n", k))
							}
						} else {
							sb.WriteString("\n")
						}
					}
					sb.WriteString("}\n")
					var src string
					switch wrap {
					case 0:
						src = "script S { " + sb.String() + " }"
					case 1, 3:
						src = "script S { pre\n " + sb.String() + " after\n }"
					default:
						src = "script S { while (flag(F)) { " + sb.String() + " tail\n } done\n }"
					}
					cases++
					msg := verifCompareProgram(src, false, parser.CommandConfig{}, 5)
					if msg == "" {
						msg = verifCompareProgram(src, true, parser.CommandConfig{}, 5)
					}
					if msg == "" {
						continue
					}
					if inKnownD2Region(hasBody, isDefault) {
						known++
						if knownExample == "" {
							knownExample = strings.ReplaceAll(src, "\n", " ") + ": " + strings.SplitN(msg, "\n", 2)[0]
						}
						continue
					}
					failing++
					if failing <= 3 {
						fmt.Printf("FAILING-INPUT %s: %s\n", strings.ReplaceAll(src, "\n", " "), strings.SplitN(msg, "\n", 2)[0])
					}
				}
			}
		}
	}
	if known > 0 {
		fmt.Printf("WITNESS-FAILS D2 %d switches in the known region (a body-less case with no later body while the default has a target), e.g. %s\n", known, knownExample)
	} else {
		fmt.Printf("WITNESS-PASSES D2 no mismatch in the known region\n")
	}
	fmt.Printf("BOUNDED C03 cases=%d failing=%d known=%d bound=\"all switches with up to %d entries (each with or without a body, default at any position or absent), plain / followed by a statement / inside a while with breaks, optimize off and on, all values of the switched variable\"\n", cases, failing, known, maxCases)
}
