package emitter

import (
	"fmt"
	"strings"
	"testing"

	"github.com/huderlem/poryscript/lexer"
	"github.com/huderlem/poryscript/parser"
)

func verifWitnessSim(id, src string, optimize bool) {
	if msg := verifCompareProgram(src, optimize, parser.CommandConfig{}, 6); msg != "" {
		fmt.Printf("WITNESS-FAILS %s optimize=%v: %s\n", id, optimize, msg)
	} else {
		fmt.Printf("WITNESS-PASSES %s optimize=%v\n", id, optimize)
	}
}

// D2: a body-less case after a default with a body: the default body runs for that value
func TestVerifWitness_D2(t *testing.T) {
	verifWitnessSim("D2", "script S { switch (var(V)) { case 1: a\n default: d\n case 2: } after }", false)
}

// D3: a body-less default sharing a later body: the shared chunk is emitted twice under one id
func TestVerifWitness_D3(t *testing.T) {
	verifWitnessSim("D3", "script S { switch (var(V)) { case 1: a\n default:\n case 2: if (flag(F)) { c } L: b } after }", false)
}

// D1: && / || precedence
func TestVerifWitness_D1(t *testing.T) {
	verifWitnessSim("D1", "script S { if (flag(A) && flag(B) && flag(C) || flag(D)) { x } y }", false)
}

// D7: the operand token synthesised for an AutoVar condition / switch has no position: with line markers on, the
// marker of the comparison names line 0 (parser obligations parseLeafBooleanExpression / parseSwitchStatement
// ensures[C16:operand-token])
func TestVerifWitness_D7(t *testing.T) {
	one := 0
	cfg := parser.CommandConfig{AutoVarCommands: map[string]parser.AutoVarCommand{
		"checkitem": {VarName: "VAR_RESULT"}, "getpartysize": {VarNameArgPosition: &one}}}
	src := "script S {\n  if (checkitem(ITEM_X) == 1) {\n    a\n  }\n  switch (checkitem(ITEM_Y)) {\n    case 1: b\n  }\n}\n"
	p := parser.New(lexer.New(src), cfg, "", "", 0, nil)
	prog, err := p.ParseProgram()
	if err != nil {
		fmt.Printf("WITNESS-PASSES D7 (did not parse: %v)\n", err)
		return
	}
	out, err := New(prog, false, true, "file.pory").Emit()
	if err != nil {
		fmt.Printf("WITNESS-PASSES D7 (did not emit: %v)\n", err)
		return
	}
	nlines := strings.Count(src, "\n")
	bad := []string{}
	for _, ln := range strings.Split(out, "\n") {
		if strings.HasPrefix(ln, "# ") {
			var n int
			fmt.Sscanf(ln, "# %d", &n)
			if n < 1 || n > nlines {
				bad = append(bad, ln)
			}
		}
	}
	if len(bad) > 0 {
		fmt.Printf("WITNESS-FAILS D7 markers outside 1..%d: %q\n", nlines, bad)
		return
	}
	fmt.Printf("WITNESS-PASSES D7 all markers name a line in 1..%d\n", nlines)
}

// D17: a condition whose '&&' operand is followed by something other than ')', '&&' or '||' is accepted by the parser
// with that token's type as the operator of a binary node; the emitter then crashes on it
// (obligation parser.Parser.parseRightSideExpression/ensures[C02,C18:binary-ok]@ret4)
func TestVerifWitness_D17(t *testing.T) {
	defer func() {
		if r := recover(); r != nil {
			fmt.Printf("WITNESS-FAILS D17 panic: %v\n", r)
		}
	}()
	src := "script S { if (flag(Z) || flag(A) && flag(B) x flag(C)) { foo } }"
	p := parser.New(lexer.New(src), parser.CommandConfig{}, "", "", 0, nil)
	prog, err := p.ParseProgram()
	if err != nil {
		fmt.Printf("WITNESS-PASSES D17 rejected by the parser: %v\n", err)
		return
	}
	_, err = New(prog, false, false, "").Emit()
	fmt.Printf("WITNESS-PASSES D17 no panic (emit err=%v)\n", err)
}

// D4: statements written after a 'break' in the same block are dropped by the work list - user labels included
// (C04: every label the author wrote inside a script is still there exactly once, even in unreachable code)
func TestVerifWitness_D4(t *testing.T) {
	src := "script S {\n while (flag(A)) {\n  x\n  break\n  Later:\n  y\n }\n}\nscript T {\n goto(Later)\n}\n"
	p := parser.New(lexer.New(src), parser.CommandConfig{}, "", "", 0, nil)
	prog, err := p.ParseProgram()
	if err != nil {
		fmt.Printf("WITNESS-PASSES D4 (rejected by the parser: %v)\n", err)
		return
	}
	out, err := New(prog, false, false, "").Emit()
	if err != nil {
		fmt.Printf("WITNESS-PASSES D4 (rejected by the emitter: %v)\n", err)
		return
	}
	n := 0
	for _, ln := range strings.Split(out, "\n") {
		if ln == "Later:" || ln == "Later::" {
			n++
		}
	}
	if n != 1 {
		fmt.Printf("WITNESS-FAILS D4 the label 'Later' written after 'break' is defined %d times in the output (a goto to it is emitted)\n", n)
		return
	}
	fmt.Printf("WITNESS-PASSES D4 label kept\n")
}

// D8: value(K) with a constant that stands for several tokens was emitted without the parentheses that the same
// text written out gets (C13: a constant is the same as its value; C02: value(N) is one raw operand)
func TestVerifWitness_D8(t *testing.T) {
	comp := func(src string) string {
		p := parser.New(lexer.New(src), parser.CommandConfig{}, "", "", 0, nil)
		prog, err := p.ParseProgram()
		if err != nil {
			return "error: " + err.Error()
		}
		out, err := New(prog, false, false, "").Emit()
		if err != nil {
			return "error: " + err.Error()
		}
		return out
	}
	with := comp("const K = 1 + 2\nscript S { if (var(V) >= value(K)) { x } }")
	written := comp("script S { if (var(V) >= value(1 + 2)) { x } }")
	if with != written {
		fmt.Printf("WITNESS-FAILS D8 value(K) with K = 1 + 2 gives %q, value(1 + 2) gives %q\n", with, written)
		return
	}
	fmt.Printf("WITNESS-PASSES D8 same output\n")
}

// D6: a brace case of a poryswitch inside moves(...) was rejected at its closing brace (C12: brace case forms hold
// for moves() steps too)
func TestVerifWitness_D6(t *testing.T) {
	src := "script S { applymovement(1, moves(a poryswitch(GAME) { RUBY { b c } _: d } e)) }"
	p := parser.New(lexer.New(src), parser.CommandConfig{}, "", "", 0, map[string]string{"GAME": "RUBY"})
	prog, err := p.ParseProgram()
	if err != nil {
		fmt.Printf("WITNESS-FAILS D6 %s is rejected: %v\n", src, err)
		return
	}
	out, err := New(prog, false, false, "").Emit()
	if err != nil || !strings.Contains(out, "\ta\n\tb\n\tc\n\te\n\tstep_end\n") {
		fmt.Printf("WITNESS-FAILS D6 output %q err %v\n", out, err)
		return
	}
	fmt.Printf("WITNESS-PASSES D6 steps a b c e\n")
}
