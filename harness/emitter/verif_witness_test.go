package emitter

import (
	"fmt"
	"testing"

	"github.com/huderlem/poryscript/parser"
)

func verifWitnessSim(id, src string, optimize bool) {
	if msg := verifCompareProgram(src, optimize, parser.CommandConfig{}, 6); msg != "" {
		fmt.Printf("WITNESS-FAILS %s optimize=%v: %s\n", id, optimize, msg)
	} else {
		fmt.Printf("WITNESS-PASSES %s optimize=%v\n", id, optimize)
	}
}

// D2: a body-less case after a default with a body: the default body runs for that value
func TestVerifWitness_D2(t *testing.T) {
	verifWitnessSim("D2", "script S { switch (var(V)) { case 1: a\n default: d\n case 2: } after }", false)
}

// D3: a body-less default sharing a later body: the shared chunk is emitted twice under one id
func TestVerifWitness_D3(t *testing.T) {
	verifWitnessSim("D3", "script S { switch (var(V)) { case 1: a\n default:\n case 2: if (flag(F)) { c } L: b } after }", false)
}

// D1: && / || precedence
func TestVerifWitness_D1(t *testing.T) {
	verifWitnessSim("D1", "script S { if (flag(A) && flag(B) && flag(C) || flag(D)) { x } y }", false)
}
