package emitter

// Bounded stand-in for the parser half of C02 (parseBooleanExpression and friends are not under contract):
// every condition built from up to N leaves with &&, ||, ! and parentheses is parsed by the real parser and
// its truth table is compared with an independent reference parser (usual precedence). BOUNDED, not a proof.

import (
	"fmt"
	"os"
	"strings"
	"testing"

	"github.com/huderlem/poryscript/ast"
	"github.com/huderlem/poryscript/lexer"
	"github.com/huderlem/poryscript/parser"
	"github.com/huderlem/poryscript/token"
)

// reference: or := and ('||' and)* ; and := unary ('&&' unary)* ; unary := '!'? ( '(' or ')' | leaf )
type refParser struct {
	toks []string
	p    int
}

func (r *refParser) peek() string {
	if r.p < len(r.toks) {
		return r.toks[r.p]
	}
	return ""
}
func (r *refParser) or(env map[string]bool) bool {
	v := r.and(env)
	for r.peek() == "||" {
		r.p++
		w := r.and(env)
		v = v || w
	}
	return v
}
func (r *refParser) and(env map[string]bool) bool {
	v := r.unary(env)
	for r.peek() == "&&" {
		r.p++
		w := r.unary(env)
		v = v && w
	}
	return v
}
func (r *refParser) unary(env map[string]bool) bool {
	neg := false
	if r.peek() == "!" {
		neg = true
		r.p++
	}
	var v bool
	if r.peek() == "(" {
		r.p++
		v = r.or(env)
		r.p++ // )
	} else {
		v = env[r.peek()]
		r.p++
	}
	return v != neg
}

func evalAst(e ast.BooleanExpression, env map[string]bool) bool {
	switch x := e.(type) {
	case *ast.OperatorExpression:
		set := env[x.Operand.Literal]
		want := (x.Operator == token.EQ && x.ComparisonValue == token.TRUE) || (x.Operator == token.NEQ && x.ComparisonValue == token.FALSE)
		return set == want
	case *ast.BinaryExpression:
		if x.Operator == token.AND {
			return evalAst(x.Left, env) && evalAst(x.Right, env)
		}
		return evalAst(x.Left, env) || evalAst(x.Right, env)
	}
	return false
}

// inKnownD1Region: some '&&' is followed, at the same parenthesis depth, by a later '||'
func inKnownD1Region(toks []string) bool {
	depthAnd := map[int]bool{}
	depth := 0
	for _, t := range toks {
		switch t {
		case "(":
			depth++
			delete(depthAnd, depth)
		case ")":
			delete(depthAnd, depth)
			depth--
		case "&&":
			depthAnd[depth] = true
		case "||":
			if depthAnd[depth] {
				return true
			}
		}
	}
	return false
}

func checkCondition(toks []string, leaves []string) (string, bool) {
	var sb strings.Builder
	for _, t := range toks {
		if len(t) == 1 && t >= "A" && t <= "Z" {
			sb.WriteString("flag(" + t + ") ")
		} else {
			sb.WriteString(t + " ")
		}
	}
	src := "script S { if (" + sb.String() + ") { x } }"
	p := parser.New(lexer.New(src), parser.CommandConfig{}, "", "", 0, nil)
	prog, err := p.ParseProgram()
	if err != nil {
		return fmt.Sprintf("%s: parse error %v", sb.String(), err), false
	}
	ifs := prog.TopLevelStatements[0].(*ast.ScriptStatement).Body.Statements[0].(*ast.IfStatement)
	for m := 0; m < 1<<len(leaves); m++ {
		env := map[string]bool{}
		for i, l := range leaves {
			env[l] = m&(1<<i) != 0
		}
		want := (&refParser{toks: toks}).or(env)
		got := evalAst(ifs.Consequence.Expression, env)
		if want != got {
			return fmt.Sprintf("condition %q under %v: written expression is %v, parsed tree evaluates to %v (tree %s)", strings.TrimSpace(sb.String()), env, want, got, ifs.Consequence.Expression.String()), inKnownD1Region(toks)
		}
	}
	return "", false
}

func TestVerifBounded_C02(t *testing.T) {
	maxLeaves := 4
	if os.Getenv("VERIF_TIER") == "thorough" {
		maxLeaves = 5
	}
	names := []string{"A", "B", "C", "D", "E"}
	cases, known, failing := 0, 0, 0
	knownExample := ""
	// enumerate token strings of the grammar with exactly k leaves
	var gen func(k int, depth int) [][]string
	memo := map[[2]int][][]string{}
	gen = func(k int, depth int) [][]string {
		key := [2]int{k, depth}
		if v, ok := memo[key]; ok {
			return v
		}
		var out [][]string
		if k == 1 {
			out = append(out, []string{"@"}, []string{"!", "@"})
			if depth > 0 {
				for _, in := range gen(1, depth-1) {
					out = append(out, append(append([]string{"("}, in...), ")"))
				}
			}
		} else {
			for l := 1; l < k; l++ {
				for _, a := range gen(l, depth) {
					for _, b := range gen(k-l, depth) {
						for _, op := range []string{"&&", "||"} {
							e := append(append(append([]string{}, a...), op), b...)
							out = append(out, e)
						}
					}
				}
			}
			if depth > 0 {
				for _, in := range gen(k, depth-1) {
					if len(in) > 1 {
						out = append(out, append(append([]string{"("}, in...), ")"))
						out = append(out, append(append([]string{"!", "("}, in...), ")"))
					}
				}
			}
		}
		memo[key] = out
		return out
	}
	seen := map[string]bool{}
	for k := 1; k <= maxLeaves; k++ {
		for _, shape := range gen(k, 2) {
			toks := make([]string, len(shape))
			n := 0
			for i, s := range shape {
				if s == "@" {
					toks[i] = names[n]
					n++
				} else {
					toks[i] = s
				}
			}
			key := strings.Join(toks, " ")
			if seen[key] {
				continue
			}
			seen[key] = true
			cases++
			msg, kn := checkCondition(toks, names[:n])
			if msg == "" {
				continue
			}
			if kn {
				known++
				if knownExample == "" {
					knownExample = msg
				}
				continue
			}
			failing++
			if failing <= 3 {
				fmt.Printf("FAILING-INPUT %s\n", msg)
			}
		}
	}
	if known > 0 {
		fmt.Printf("WITNESS-FAILS D1 %d conditions in the known region (an && followed by a later || at the same depth), e.g. %s\n", known, knownExample)
	} else {
		fmt.Printf("WITNESS-PASSES D1 no mismatch in the known region\n")
	}
	fmt.Printf("BOUNDED C02 cases=%d failing=%d known=%d bound=\"all conditions with up to %d flag() leaves, &&, ||, ! and parentheses to depth 2, all truth assignments\"\n", cases, failing, known, maxLeaves)
}
