package emitter

// Trace comparer used for replays and known-finding witnesses (injected with `go test -overlay`).
// It interprets the structured source (ast) and the emitted assembly against the same sequence of
// answers to state queries and compares the observable traces (queries, commands, how execution ends).

import (
	"fmt"
	"strings"

	"github.com/huderlem/poryscript/ast"
	"github.com/huderlem/poryscript/lexer"
	"github.com/huderlem/poryscript/parser"
	"github.com/huderlem/poryscript/token"
)

type vOracle struct {
	answers []int
	pos     int
	out     bool // ran out of answers
}

func (o *vOracle) next(n int) int {
	if o.pos >= len(o.answers) {
		o.out = true
		return 0
	}
	a := o.answers[o.pos] % n
	o.pos++
	return a
}

type vTrace struct {
	ev  []string
	end string
}

func (t *vTrace) add(s string) { t.ev = append(t.ev, s) }

// ---- state queries shared by both interpreters ----

func qFlag(o *vOracle, t *vTrace, name string) bool {
	a := o.next(2)
	t.add(fmt.Sprintf("Q flag(%s)=%d", name, a))
	return a == 1
}
func qTrainer(o *vOracle, t *vTrace, name string) bool {
	a := o.next(2)
	t.add(fmt.Sprintf("Q defeated(%s)=%d", name, a))
	return a == 1
}

// outcome of comparing var with value: 0 lt, 1 eq, 2 gt
func qCompare(o *vOracle, t *vTrace, strict bool, v, x string) int {
	a := o.next(3)
	t.add(fmt.Sprintf("Q cmp(%s,%s,strict=%v)=%d", v, x, strict, a))
	return a
}
func relHolds(op string, c int) bool {
	switch op {
	case "eq":
		return c == 1
	case "ne":
		return c != 1
	case "lt":
		return c == 0
	case "le":
		return c <= 1
	case "gt":
		return c == 2
	case "ge":
		return c >= 1
	}
	return false
}

// every case value written anywhere in the program under test (set by the driver)
var vAllValues []string

// switch: the value of the switched var, chosen among all case values of the program or "something else"
func qSwitch(o *vOracle, t *vTrace, operand string) string {
	a := o.next(len(vAllValues) + 1)
	if a >= len(vAllValues) {
		t.add(fmt.Sprintf("Q switch(%s)=<other>", operand))
		return "\x00other"
	}
	t.add(fmt.Sprintf("Q switch(%s)=%s", operand, vAllValues[a]))
	return vAllValues[a]
}

// ---- source interpreter ----

type vBreak struct{ scope ast.Statement }
type vContinue struct{ loop ast.Statement }
type vStop struct{ kind string }
type vGoto struct{ label string }

func vCmdText(c *ast.CommandStatement) string {
	s := c.Name.Value
	if len(c.Args) > 0 {
		s += " " + strings.Join(c.Args, ", ")
	}
	return s
}

type vSrc struct {
	o     *vOracle
	t     *vTrace
	steps int
	sw    map[*ast.SwitchStatement][]string // all case values of a switch, in source order
}

func (s *vSrc) evalLeaf(e *ast.OperatorExpression) bool {
	if e.PreambleStatement != nil {
		s.t.add("C " + vCmdText(e.PreambleStatement))
	}
	switch e.Type {
	case token.FLAG:
		set := qFlag(s.o, s.t, e.Operand.Literal)
		want := (e.Operator == token.EQ && e.ComparisonValue == token.TRUE) || (e.Operator == token.NEQ && e.ComparisonValue == token.FALSE)
		return set == want
	case token.DEFEATED:
		set := qTrainer(s.o, s.t, e.Operand.Literal)
		want := (e.Operator == token.EQ && e.ComparisonValue == token.TRUE) || (e.Operator == token.NEQ && e.ComparisonValue == token.FALSE)
		return set == want
	case token.VAR:
		c := qCompare(s.o, s.t, e.ComparisonValueType == ast.StrictValueComparison, e.Operand.Literal, e.ComparisonValue)
		ops := map[token.Type]string{token.EQ: "eq", token.NEQ: "ne", token.LT: "lt", token.LTE: "le", token.GT: "gt", token.GTE: "ge"}
		return relHolds(ops[e.Operator], c)
	}
	return false
}

func (s *vSrc) evalBool(e ast.BooleanExpression) bool {
	switch x := e.(type) {
	case *ast.OperatorExpression:
		return s.evalLeaf(x)
	case *ast.BinaryExpression:
		if x.Operator == token.AND {
			return s.evalBool(x.Left) && s.evalBool(x.Right)
		}
		return s.evalBool(x.Left) || s.evalBool(x.Right)
	}
	return false
}

// run executes a statement list; control signals are returned as values
func (s *vSrc) run(stmts []ast.Statement) interface{} {
	for _, st := range stmts {
		s.steps++
		if s.steps > 400 || s.o.out {
			return vStop{"cutoff"}
		}
		switch x := st.(type) {
		case *ast.CommandStatement:
			s.t.add("C " + vCmdText(x))
			if x.Name.Value == "end" {
				return vStop{"end"}
			}
			if x.Name.Value == "return" {
				return vStop{"return"}
			}
		case *ast.LabelStatement:
		case *ast.IfStatement:
			var sig interface{}
			done := false
			if s.evalBool(x.Consequence.Expression) {
				sig, done = s.run(x.Consequence.Body.Statements), true
			} else {
				for _, el := range x.ElifConsequences {
					if s.evalBool(el.Expression) {
						sig, done = s.run(el.Body.Statements), true
						break
					}
				}
				if !done && x.ElseConsequence != nil {
					sig = s.run(x.ElseConsequence.Statements)
				}
			}
			if sig != nil {
				return sig
			}
		case *ast.WhileStatement:
			for {
				s.steps++
				if s.steps > 400 || s.o.out {
					return vStop{"cutoff"}
				}
				if x.Consequence.Expression != nil && !s.evalBool(x.Consequence.Expression) {
					break
				}
				sig := s.run(x.Consequence.Body.Statements)
				if b, ok := sig.(vBreak); ok && b.scope == ast.Statement(x) {
					break
				}
				if c, ok := sig.(vContinue); ok && c.loop == ast.Statement(x) {
					continue
				}
				if sig != nil {
					return sig
				}
			}
		case *ast.DoWhileStatement:
			for {
				s.steps++
				if s.steps > 400 || s.o.out {
					return vStop{"cutoff"}
				}
				sig := s.run(x.Consequence.Body.Statements)
				if b, ok := sig.(vBreak); ok && b.scope == ast.Statement(x) {
					break
				}
				if c, ok := sig.(vContinue); ok && c.loop == ast.Statement(x) {
					continue // documented: continue goes back to the start of the body
				}
				if sig != nil {
					return sig
				}
				if !s.evalBool(x.Consequence.Expression) {
					break
				}
			}
		case *ast.BreakStatement:
			return vBreak{x.ScopeStatment}
		case *ast.ContinueStatement:
			return vContinue{x.LoopStatment}
		case *ast.SwitchStatement:
			v := qSwitch(s.o, s.t, x.Operand.Literal)
			// the case that matches (or default), then the next case at or after it that has a body
			start := -1
			for i, c := range x.Cases {
				if !c.IsDefault && c.Value.Literal == v {
					start = i
					break
				}
			}
			if start == -1 {
				for i, c := range x.Cases {
					if c.IsDefault {
						start = i
					}
				}
			}
			if start >= 0 {
				for j := start; j < len(x.Cases); j++ {
					if len(x.Cases[j].Body.Statements) > 0 {
						sig := s.run(x.Cases[j].Body.Statements)
						if b, ok := sig.(vBreak); ok && b.scope == ast.Statement(x) {
							sig = nil
						}
						if sig != nil {
							return sig
						}
						break
					}
				}
			}
		}
	}
	return nil
}

// ---- target interpreter ----

type vAsm struct {
	lines  []string
	labels map[string]int
	dups   []string
}

func vParseAsm(out string) *vAsm {
	a := &vAsm{labels: map[string]int{}}
	for _, ln := range strings.Split(out, "\n") {
		t := strings.TrimSpace(ln)
		if t == "" || strings.HasPrefix(t, "#") {
			continue
		}
		if strings.HasSuffix(t, ":") && !strings.Contains(t, " ") {
			name := strings.TrimRight(t, ":")
			if _, dup := a.labels[name]; dup {
				a.dups = append(a.dups, name)
			}
			a.labels[name] = len(a.lines)
			continue
		}
		a.lines = append(a.lines, t)
	}
	return a
}

func (a *vAsm) run(entry string, o *vOracle, t *vTrace) {
	pc, ok := a.labels[entry]
	if !ok {
		t.end = "no-entry"
		return
	}
	jump := func(l string) bool {
		p, ok := a.labels[l]
		if !ok {
			t.end = "undefined-label " + l
			return false
		}
		pc = p
		return true
	}
	lastCmp := 0
	lastTrainer := false
	steps := 0
	for {
		steps++
		if steps > 4000 || o.out {
			t.end = "cutoff"
			return
		}
		if pc >= len(a.lines) {
			t.end = "runoff"
			return
		}
		ln := a.lines[pc]
		pc++
		f := strings.Fields(ln)
		arg := strings.TrimSpace(strings.TrimPrefix(ln, f[0]))
		switch f[0] {
		case "goto":
			if !jump(arg) {
				return
			}
		case "return":
			t.end = "return"
			t.add("C return")
			return
		case "end":
			t.end = "end"
			t.add("C end")
			return
		case "goto_if_set", "goto_if_unset":
			p := strings.SplitN(arg, ", ", 2)
			set := qFlag(o, t, p[0])
			if set == (f[0] == "goto_if_set") {
				if !jump(p[1]) {
					return
				}
			}
		case "compare", "compare_var_to_value":
			p := strings.SplitN(arg, ", ", 2)
			lastCmp = qCompare(o, t, f[0] == "compare_var_to_value", p[0], p[1])
		case "goto_if_eq", "goto_if_ne", "goto_if_lt", "goto_if_le", "goto_if_gt", "goto_if_ge":
			if relHolds(strings.TrimPrefix(f[0], "goto_if_"), lastCmp) {
				if !jump(arg) {
					return
				}
			}
		case "checktrainerflag":
			lastTrainer = qTrainer(o, t, arg)
		case "goto_if":
			p := strings.SplitN(arg, ", ", 2)
			if lastTrainer == (p[0] == "1") {
				if !jump(p[1]) {
					return
				}
			}
		case "switch":
			// collect the case lines that follow
			var values, dests []string
			for pc < len(a.lines) && strings.HasPrefix(a.lines[pc], "case ") {
				p := strings.SplitN(strings.TrimPrefix(a.lines[pc], "case "), ", ", 2)
				values = append(values, p[0])
				dests = append(dests, p[1])
				pc++
			}
			v := qSwitch(o, t, arg)
			for i, x := range values {
				if x == v {
					if !jump(dests[i]) {
						return
					}
					break
				}
			}
		default:
			t.add("C " + ln)
		}
	}
}

// ---- driver ----

func verifCompile(src string, optimize bool, cfg parser.CommandConfig, switches map[string]string) (*ast.Program, string, error) {
	p := parser.New(lexer.New(src), cfg, "", "", 0, switches)
	prog, err := p.ParseProgram()
	if err != nil {
		return nil, "", err
	}
	out, err := New(prog, optimize, false, "").Emit()
	return prog, out, err
}

// verifCompareScript runs every script of the program on all answer sequences up to the given length.
func verifCompareProgram(src string, optimize bool, cfg parser.CommandConfig, maxLen int) string {
	prog, out, err := verifCompile(src, optimize, cfg, nil)
	if err != nil {
		return ""
	}
	vAllValues = nil
	seenV := map[string]bool{}
	var walk func(sts []ast.Statement)
	walk = func(sts []ast.Statement) {
		for _, st := range sts {
			if sw, ok := st.(*ast.SwitchStatement); ok {
				for _, c := range sw.Cases {
					if !c.IsDefault && !seenV[c.Value.Literal] {
						seenV[c.Value.Literal] = true
						vAllValues = append(vAllValues, c.Value.Literal)
					}
				}
			}
			for _, ch := range st.AllChildren() {
				if b, ok := ch.(*ast.BlockStatement); ok {
					walk(b.Statements)
				}
			}
		}
	}
	walk(prog.TopLevelStatements)
	asm := vParseAsm(out)
	if len(asm.dups) > 0 {
		return fmt.Sprintf("label defined twice: %v\n%s", asm.dups, out)
	}
	for _, st := range prog.TopLevelStatements {
		sc, ok := st.(*ast.ScriptStatement)
		if !ok {
			continue
		}
		var rec func(prefix []int) string
		rec = func(prefix []int) string {
			so := &vOracle{answers: prefix}
			stT := &vTrace{}
			src := &vSrc{o: so, t: stT}
			sig := src.run(sc.Body.Statements)
			switch x := sig.(type) {
			case vStop:
				stT.end = x.kind
			case nil:
				stT.end = "return"
			default:
				stT.end = fmt.Sprintf("stray %T", sig)
			}
			if stT.end == "return" && (len(stT.ev) == 0 || stT.ev[len(stT.ev)-1] != "C return") {
				stT.add("C return") // falling off the end of a script is an implicit return
			}
			to := &vOracle{answers: prefix}
			tt := &vTrace{}
			asm.run(sc.Name.Value, to, tt)
			if so.out || to.out {
				// needs a longer answer sequence
				if len(prefix) >= maxLen {
					return ""
				}
				for a := 0; a < 6; a++ {
					if msg := rec(append(append([]int{}, prefix...), a)); msg != "" {
						return msg
					}
				}
				return ""
			}
			if stT.end == "cutoff" || tt.end == "cutoff" {
				return ""
			}
			if strings.Join(stT.ev, "|") != strings.Join(tt.ev, "|") || stT.end != tt.end {
				return fmt.Sprintf("script %s answers %v:\n  source: %v end=%s\n  target: %v end=%s\n%s", sc.Name.Value, prefix, stT.ev, stT.end, tt.ev, tt.end, out)
			}
			return ""
		}
		if msg := rec(nil); msg != "" {
			return msg
		}
	}
	return ""
}
