package emitter

// Search harnesses for the properties whose mechanism lives mostly in the parser (C06, C10, C12, C13): when one of
// their obligations fails, small programs are compiled by the real parser and emitter and compared with an oracle
// taken from the property statement (independent re-tokenisation, textual substitution, manual selection, label
// bookkeeping) to look for a concrete failing input for the replay file. Searches, not proofs.

import (
	"fmt"
	"regexp"
	"strings"
	"testing"

	"github.com/huderlem/poryscript/lexer"
	"github.com/huderlem/poryscript/parser"
	"github.com/huderlem/poryscript/token"
)

func vOut(src string, switches map[string]string) (string, error) {
	_, out, err := verifCompile(src, false, parser.CommandConfig{}, switches)
	return out, err
}

// ---- C10: a command line is its name followed by exactly its argument tokens ----

func vExpectedCommandLine(name, argText string) string {
	// independent reading of the argument text: tokens (real lexer, C19) split at every comma
	l := lexer.New(argText)
	var args []string
	var cur []string
	for {
		t := l.NextToken()
		if t.Type == token.EOF {
			break
		}
		if t.Type == token.COMMA {
			args = append(args, strings.Join(cur, " "))
			cur = nil
			continue
		}
		cur = append(cur, t.Literal)
	}
	if len(cur) > 0 {
		args = append(args, strings.Join(cur, " "))
	}
	if len(args) == 0 {
		return "\t" + name
	}
	return "\t" + name + " " + strings.Join(args, ", ")
}

func TestVerifSearch_C10(t *testing.T) {
	argTexts := []string{"", "A", "A, B", "1, 0x1f, 0X1F, -5", "A + 1, B | C", "foo(1, 2)", "foo(bar(1, 2), 3), 4", "(A, (B, C))", "VAR_0x8004, 0xff",
		"a, b, c, d, e", "(1 + 2) * 3", "A,B", "if_x, while_y", "x == 1, y != 2"}
	found, tried := 0, 0
	for _, name := range []string{"cmd", "setvar", "lockall"} {
		for _, at := range argTexts {
			stmt := name
			if at != "" {
				stmt = name + "(" + at + ")"
			}
			src := "script S {\n first\n " + stmt + "\n last\n}\n"
			tried++
			out, err := vOut(src, nil)
			if err != nil {
				continue
			}
			lines := strings.Split(out, "\n")
			want := vExpectedCommandLine(name, at)
			ok := false
			for i, ln := range lines {
				if ln == "\tfirst" && i+2 < len(lines) && lines[i+1] == want && lines[i+2] == "\tlast" {
					ok = true
				}
			}
			if !ok {
				found++
				if found <= 3 {
					fmt.Printf("FAILING-INPUT %s: expected the line %q between 'first' and 'last', output is %q\n", strings.ReplaceAll(src, "\n", " "), want, out)
				}
			}
		}
	}
	fmt.Printf("SEARCH-DONE C10 programs=%d found=%d\n", tried, found)
}

// ---- C13: using a constant is the same as writing its value ----

func TestVerifSearch_C13(t *testing.T) {
	values := []string{"7", "FOO", "1 + 2", "ITEM_NONE", "0x4001"}
	// %s is replaced by the constant name (with consts) or by its value (without)
	uses := []string{
		"script S { cmd(%s) cmd(a, %s, b) }",
		"script S { if (flag(%s)) { x } }",
		"script S { if (var(%s) == 2) { x } }",
		"script S { if (var(V) >= %s) { x } else { y } }",
		"script S { if (var(V) >= value(%s)) { x } else { y } }",
		"script S { while (var(V) != value(%s + 1)) { x } }",
		"script S { if (defeated(%s)) { x } }",
		"script S { switch (var(%s)) { case 1: x } }",
		"script S { switch (var(V)) { case %s: x\n case 9: y } }",
		"script S { while (var(V) != %s) { x } }",
		"mart M { ITEM_A\n %s\n ITEM_B }",
		"mapscripts M { MAP_SCRIPT_ON_FRAME_TABLE [ VAR_X, %s: Other ] }",
	}
	found, tried := 0, 0
	for _, v := range values {
		for _, u := range uses {
			if strings.HasPrefix(u, "mart") && v != "FOO" && v != "ITEM_NONE" {
				continue // a mart item is a single identifier: only identifier-valued constants can be written out
			}
			with := "const K = " + v + "\n" + fmt.Sprintf(u, "K")
			without := fmt.Sprintf(u, v)
			tried++
			o1, e1 := vOut(with, nil)
			o2, e2 := vOut(without, nil)
			if (e1 == nil) != (e2 == nil) || (e1 == nil && o1 != o2) {
				found++
				if found <= 3 {
					fmt.Printf("FAILING-INPUT with the constant: %s gives %q (err %v); with the value written out: %s gives %q (err %v)\n",
						strings.ReplaceAll(with, "\n", " "), o1, e1, strings.ReplaceAll(without, "\n", " "), o2, e2)
				}
			}
		}
	}
	fmt.Printf("SEARCH-DONE C13 programs=%d found=%d\n", tried, found)
}

// ---- C12: a poryswitch contributes exactly the selected case ----

func TestVerifSearch_C12(t *testing.T) {
	type form struct {
		wrap  string   // %s: the poryswitch or the selected content
		cases []string // contents per case label
		brace bool
	}
	contents := map[string][]string{
		"stmt": {"a1\n a2", "b1", "msgbox(\"hi\")", ""},
		"text": {"\"one\"", "ascii\"two\"", "braille\"three\""},
		"move": {"walk_up", "walk_down * 2 face_left", ""},
		"moves": {"walk_up", "walk_down * 2 face_left", ""},
		"mart": {"ITEM_A", "ITEM_B ITEM_C", ""},
	}
	wraps := map[string]string{
		"stmt": "script S { pre\n %s\n post }",
		"text": "text T { %s }",
		"move": "movement M { first %s last }",
		"moves": "script S { applymovement(1, moves(first %s last)) }",
		"mart": "mart M { FIRST %s LAST }",
	}
	found, tried := 0, 0
	for kind, cs := range contents {
		for _, brace := range []bool{false, true} {
			if kind == "text" && brace {
				// a brace case holds one text value as well
			}
			for withDefault := 0; withDefault < 2; withDefault++ {
				var sb strings.Builder
				sb.WriteString("poryswitch(GAME) {\n")
				labels := []string{"RUBY", "SAPPHIRE", "EMERALD"}
				sel := map[string]string{}
				n := len(cs)
				if n > 3 {
					n = 3
				}
				for i := 0; i < n; i++ {
					c := cs[i]
					if c == "" && !brace {
						c = cs[0] // a colon case needs content
					}
					if !brace && (kind == "move" || kind == "moves" || kind == "mart" || kind == "stmt") {
						// a colon case holds exactly one item / statement
						c = strings.Fields(strings.SplitN(c, "\n", 2)[0])[0]
						if kind == "stmt" && strings.HasPrefix(cs[i], "msgbox") {
							c = cs[i]
						}
					}
					sel[labels[i]] = c
					if brace {
						sb.WriteString(" " + labels[i] + " { " + c + " }\n")
					} else {
						sb.WriteString(" " + labels[i] + ": " + c + "\n")
					}
				}
				if withDefault == 1 {
					d := cs[len(cs)-1]
					if d == "" {
						d = cs[0]
					}
					if !brace && (kind == "move" || kind == "moves" || kind == "mart" || kind == "stmt") {
						d = strings.Fields(strings.SplitN(d, "\n", 2)[0])[0]
					}
					sel["_"] = d
					if brace {
						sb.WriteString(" _ { " + d + " }\n")
					} else {
						sb.WriteString(" _: " + d + "\n")
					}
				}
				sb.WriteString("}")
				for _, val := range []string{"RUBY", "SAPPHIRE", "EMERALD", "FIRERED"} {
					chosen, ok := sel[val]
					if !ok {
						chosen, ok = sel["_"]
					}
					src := fmt.Sprintf(wraps[kind], sb.String())
					tried++
					o1, e1 := vOut(src, map[string]string{"GAME": val})
					if !ok {
						if e1 == nil {
							found++
							if found <= 3 {
								fmt.Printf("FAILING-INPUT GAME=%s %s: no case matches and there is no '_' but compilation succeeds\n", val, strings.ReplaceAll(src, "\n", " "))
							}
						}
						continue
					}
					manual := fmt.Sprintf(wraps[kind], chosen)
					o2, e2 := vOut(manual, map[string]string{"GAME": val})
					if e2 != nil {
						continue // the selected content does not stand alone in this position
					}
					if e1 != nil || o1 != o2 {
						found++
						if found <= 3 {
							fmt.Printf("FAILING-INPUT GAME=%s %s gives %q (err %v); the selected case written directly gives %q\n", val, strings.ReplaceAll(src, "\n", " "), o1, e1, o2)
						}
					}
				}
			}
		}
	}
	fmt.Printf("SEARCH-DONE C12 programs=%d found=%d\n", tried, found)
}

// ---- C06: every hoisted label is defined once, with the content it stands for ----

var vLabelRe = regexp.MustCompile(`^([A-Za-z0-9_]+)::?$`)

func TestVerifSearch_C06(t *testing.T) {
	texts := []string{"\"Hello\"", "\"Hello\"", "\"Other\"", "ascii\"Hello\"", "braille\"ABC\"", "\"ABC\"", "format(\"Hello\")"}
	moves := []string{"moves(walk_up)", "moves(walk_up)", "moves(walk_down walk_up)", "moves(walk_up * 2)"}
	wrappers := []string{
		"script A { %s }\nscript B { %s }",
		"script A { if (flag(F)) { %s } else { %s } }",
		"script A { switch (var(V)) { case 1: %s\n case 2: %s } }",
		"script A { while (flag(F)) { %s } %s }",
		"script A { if (flag(A) && dotext(%%T1) && flag(B)) { x } %s %s }",
		"script A { poryswitch(G) { X: %s\n _: %s } }",
		"mapscripts M { ON_LOAD { %s } ON_FRAME [ VAR_X, 1 { %s } ] }",
	}
	found, tried := 0, 0
	cfg := parser.CommandConfig{AutoVarCommands: map[string]parser.AutoVarCommand{"dotext": {VarName: "VAR_RESULT"}}}
	for _, w := range wrappers {
		for i := 0; i < len(texts); i++ {
			for j := 0; j < len(texts); j++ {
				a := "msgbox(" + texts[i] + ")"
				b := "say(" + texts[j] + ", " + moves[(i+j)%len(moves)] + ")\n applymovement(1, " + moves[j%len(moves)] + ")"
				src := strings.ReplaceAll(fmt.Sprintf(w, a, b), "%T1", texts[(i+1)%len(texts)])
				tried++
				_, out, err := verifCompile(src, false, cfg, map[string]string{"G": "Y"})
				if err != nil {
					continue
				}
				defs := map[string]int{}
				for _, ln := range strings.Split(out, "\n") {
					if m := vLabelRe.FindStringSubmatch(ln); m != nil {
						defs[m[1]]++
					}
				}
				msg := ""
				for _, ln := range strings.Split(out, "\n") {
					if !strings.HasPrefix(ln, "\t") || strings.HasPrefix(ln, "\t.") {
						continue
					}
					f := strings.Fields(strings.ReplaceAll(ln, ",", " "))
					for k, arg := range f {
						if k == 0 {
							continue
						}
						if strings.Contains(arg, "_Text_") || strings.Contains(arg, "_Movement_") {
							if defs[arg] != 1 {
								msg = fmt.Sprintf("label %s is referenced by %q and defined %d times", arg, strings.TrimSpace(ln), defs[arg])
							}
						}
					}
					if strings.HasSuffix(strings.TrimSpace(ln), ",") || strings.Contains(ln, ", ,") || strings.TrimSpace(ln) == "msgbox" || strings.TrimSpace(ln) == "dotext" || strings.TrimSpace(ln) == "say" {
						msg = fmt.Sprintf("an argument slot stayed empty in %q", strings.TrimSpace(ln))
					}
				}
				for l, n := range defs {
					if n > 1 {
						msg = fmt.Sprintf("label %s is defined %d times", l, n)
					}
				}
				if msg != "" {
					found++
					if found <= 3 {
						fmt.Printf("FAILING-INPUT %s: %s\n", strings.ReplaceAll(src, "\n", " "), msg)
					}
				}
			}
		}
	}
	fmt.Printf("SEARCH-DONE C06 programs=%d found=%d\n", tried, found)
}
