package emitter

// Search harness for the control-flow properties of the emitter (C01, C03, C04, C05): when one of their obligations
// fails, small structured programs are compiled by the real parser and emitter and run against the source
// interpreter (verifCompareProgram) to look for a concrete failing input for the replay file. A search, not a proof.

import (
	"fmt"
	"os"
	"strings"
	"testing"
	"time"

	"github.com/huderlem/poryscript/parser"
)

// statement lists of a given nesting depth; inLoop / inSwitch decide whether break / continue may appear
func vGenStmts(depth int, inLoop, inBreakable bool, budget *int) []string {
	atoms := []string{"a\n"}
	if inBreakable {
		atoms = append(atoms, "break\n")
	}
	if inLoop {
		atoms = append(atoms, "continue\n")
	}
	var single []string
	single = append(single, atoms...)
	if depth > 0 {
		inner := vGenStmts(depth-1, inLoop, inBreakable, budget)
		innerLoop := vGenStmts(depth-1, true, true, budget)
		innerSwitch := vGenStmts(depth-1, inLoop, true, budget)
		pick := func(xs []string, n int) []string {
			if len(xs) <= n {
				return xs
			}
			step := len(xs) / n
			var out []string
			for i := 0; i < len(xs) && len(out) < n; i += step {
				out = append(out, xs[i])
			}
			return out
		}
		for _, b := range pick(inner, 6) {
			single = append(single, "if (flag(A)) {\n"+b+"}\n")
			single = append(single, "if (flag(A)) {\n"+b+"} else {\nc\n}\n")
			single = append(single, "if (flag(A) && !flag(B)) {\nb\n} elif (var(V) == 2) {\n"+b+"} else {\nc\n}\n")
		}
		for _, b := range pick(innerLoop, 6) {
			single = append(single, "while (flag(A)) {\n"+b+"}\n")
			single = append(single, "do {\n"+b+"} while (flag(B) || flag(A))\n")
		}
		for _, b := range pick(innerSwitch, 5) {
			single = append(single, "switch (var(V)) {\ncase 1:\n"+b+"case 2:\ncase 3:\nc\ndefault:\nd\n}\n")
			single = append(single, "switch (var(V)) {\ncase 1:\ndefault:\n"+b+"case 2:\ne\nbreak\n}\n")
		}
	}
	out := append([]string{}, single...)
	for _, x := range single {
		if strings.HasPrefix(x, "break") || strings.HasPrefix(x, "continue") {
			continue // continue must be last in its block; nothing after break is interesting
		}
		for _, y := range single {
			if *budget <= 0 {
				return out
			}
			*budget--
			out = append(out, x+y)
		}
	}
	return out
}

func TestVerifSearch_ControlFlow(t *testing.T) {
	budget := 4000
	if os.Getenv("VERIF_TIER") == "thorough" {
		budget = 20000
	}
	progs := vGenStmts(2, false, false, &budget)
	found, tried := 0, 0
	seen := map[string]bool{}
	deadline := time.Now().Add(60 * time.Second)
	if os.Getenv("VERIF_TIER") == "thorough" {
		deadline = time.Now().Add(240 * time.Second)
	}
	for _, body := range progs {
		if time.Now().After(deadline) {
			break
		}
		if strings.HasSuffix(strings.TrimSpace(body), "continue") && !strings.Contains(body, "while") && !strings.Contains(body, "do {") {
			continue
		}
		src := "script S {\n" + body + "}\n"
		if seen[src] {
			continue
		}
		seen[src] = true
		for _, opt := range []bool{false, true} {
			tried++
			msg := verifCompareProgram(src, opt, parser.CommandConfig{}, 4)
			if msg == "" {
				continue
			}
			// the two recorded defects are not what is being looked for
			if strings.Contains(src, "case 2:\ncase 3:") == false && strings.Contains(src, "default:\n") && strings.Contains(msg, "known") {
				continue
			}
			found++
			if found <= 3 {
				fmt.Printf("FAILING-INPUT optimize=%v %s: %s\n", opt, strings.ReplaceAll(src, "\n", " "), strings.SplitN(msg, "\n", 2)[0])
			}
			break
		}
		if found >= 3 {
			break
		}
	}
	fmt.Printf("SEARCH-DONE control-flow programs=%d found=%d\n", tried, found)
}
