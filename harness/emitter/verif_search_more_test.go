package emitter

// Search harnesses for C08, C09, C14, C15 and C16: when one of their obligations fails, small programs are compiled
// by the real parser and emitter and compared with an oracle taken from the property statement, to look for a
// concrete failing input for the replay file. Searches, not proofs.

import (
	"fmt"
	"regexp"
	"strconv"
	"strings"
	"testing"

	"github.com/huderlem/poryscript/lexer"
	"github.com/huderlem/poryscript/parser"
)

func vCompileMarkers(src string, markers bool, path string) (string, error) {
	p := parser.New(lexer.New(src), parser.CommandConfig{AutoVarCommands: map[string]parser.AutoVarCommand{"checkitem": {VarName: "VAR_RESULT"}}}, "", "", 0, map[string]string{"GAME": "RUBY"})
	prog, err := p.ParseProgram()
	if err != nil {
		return "", err
	}
	return New(prog, false, markers, path).Emit()
}

func vReport(prop string, tried, found int) {
	fmt.Printf("SEARCH-DONE %s programs=%d found=%d\n", prop, tried, found)
}

// ---- C14: movement and mart lists are expanded, ordered, terminated exactly once ----

func TestVerifSearch_C14(t *testing.T) {
	steps := [][]string{{}, {"walk_up"}, {"walk_up", "walk_down"}, {"walk_up", "step_end", "walk_down"}, {"step_end"}, {"a", "b", "c", "d"}}
	mults := []int{0, 1, 2, 3, 9999, 10000}
	found, tried := 0, 0
	for _, scope := range []string{"", "(global)", "(local)"} {
		for _, ss := range steps {
			for _, m := range mults {
				if m == 0 || len(ss) == 0 {
					if m != 1 {
						continue
					}
				}
				var src, want strings.Builder
				src.WriteString("movement" + scope + " M {\n")
				colon := ":"
				if scope == "(global)" {
					colon = "::"
				}
				want.WriteString("M" + colon + "\n")
				done := false
				for i, s := range ss {
					n := 1
					if i == 0 && m != 1 {
						n = m
						src.WriteString(" " + s + " * " + strconv.Itoa(m) + "\n")
					} else {
						src.WriteString(" " + s + "\n")
					}
					for k := 0; k < n && !done; k++ {
						if s == "step_end" {
							done = true
							break
						}
						want.WriteString("\t" + s + "\n")
					}
				}
				src.WriteString("}\n")
				want.WriteString("\tstep_end\n")
				tried++
				out, err := vCompileMarkers(src.String(), false, "")
				legal := m >= 1 && m <= 9999
				if !legal {
					if err == nil {
						found++
						fmt.Printf("FAILING-INPUT %s: multiplier %d is outside 1..9999 but is accepted\n", strings.ReplaceAll(src.String(), "\n", " "), m)
					}
					continue
				}
				if err != nil || out != want.String() {
					found++
					if found <= 3 {
						o := out
						if len(o) > 200 {
							o = o[:200] + "..."
						}
						fmt.Printf("FAILING-INPUT %s: expected %q, got %q (err %v)\n", strings.ReplaceAll(src.String(), "\n", " "), trunc200(want.String()), o, err)
					}
				}
			}
		}
	}
	items := [][]string{{}, {"ITEM_A"}, {"ITEM_A", "ITEM_B"}, {"ITEM_A", "ITEM_NONE", "ITEM_B"}, {"ITEM_NONE"}}
	for _, scope := range []string{"", "(global)", "(local)"} {
		for _, is := range items {
			src := "mart" + scope + " M {\n " + strings.Join(is, "\n ") + "\n}\n"
			colon := ":"
			if scope == "(global)" {
				colon = "::"
			}
			want := "\t.align 2\nM" + colon + "\n"
			for _, it := range is {
				if it == "ITEM_NONE" {
					break
				}
				want += "\t.2byte " + it + "\n"
			}
			want += "\t.2byte ITEM_NONE\n"
			tried++
			out, err := vCompileMarkers(src, false, "")
			if err != nil || out != want {
				found++
				if found <= 3 {
					fmt.Printf("FAILING-INPUT %s: expected %q, got %q (err %v)\n", strings.ReplaceAll(src, "\n", " "), want, out, err)
				}
			}
		}
	}
	vReport("C14", tried, found)
}

func trunc200(s string) string {
	if len(s) > 200 {
		return s[:200] + "..."
	}
	return s
}

// ---- C15: labels are exported or local exactly as written or by documented default ----

func TestVerifSearch_C15(t *testing.T) {
	type form struct{ src, name, def string }
	forms := []form{
		{"script%s S { x }", "S", "::"},
		{"text%s S { \"t\" }", "S", "::"},
		{"movement%s S { walk_up }", "S", ":"},
		{"mart%s S { ITEM_A }", "S", ":"},
		{"mapscripts%s S { }", "S", "::"},
		{"script Outer { x\n L%s: y }", "L", ":"},
	}
	found, tried := 0, 0
	for _, f := range forms {
		for _, sc := range []string{"", "(global)", "(local)"} {
			want := f.def
			if sc == "(global)" {
				want = "::"
			} else if sc == "(local)" {
				want = ":"
			}
			src := fmt.Sprintf(f.src, sc)
			tried++
			out, err := vCompileMarkers(src, false, "")
			if err != nil {
				continue
			}
			got := ""
			for _, ln := range strings.Split(out, "\n") {
				if ln == f.name+":" {
					got = ":"
				} else if ln == f.name+"::" {
					got = "::"
				}
			}
			if got != want {
				found++
				if found <= 3 {
					fmt.Printf("FAILING-INPUT %s: label %s should end with %q, output %q\n", src, f.name, want, out)
				}
			}
		}
	}
	// generated labels are local
	tried++
	out, err := vCompileMarkers("script S { if (flag(A)) { msgbox(\"hi\") } applymovement(1, moves(walk_up)) }", false, "")
	if err == nil {
		for _, ln := range strings.Split(out, "\n") {
			if strings.HasSuffix(ln, "::") && ln != "S::" {
				found++
				fmt.Printf("FAILING-INPUT generated label %q is exported\n", ln)
			}
		}
	}
	vReport("C15", tried, found)
}

// ---- C09: text is emitted line by line with exactly one correct terminator ----

func TestVerifSearch_C09(t *testing.T) {
	vals := []string{"Hello", "Hello$", "A\\nB", "", "x$y", "Costs 5$"}
	types := []string{"", "ascii", "braille", "custom"}
	found, tried := 0, 0
	for _, ty := range types {
		for _, v := range vals {
			for _, inline := range []bool{false, true} {
				lit := ty + "\"" + v + "\""
				var src, label string
				if inline {
					src = "script S { msgbox(" + lit + ") }"
					label = "S_Text_0:"
				} else {
					src = "text T { " + lit + " }"
					label = "T::"
				}
				term := ""
				switch ty {
				case "", "braille":
					term = "$"
				case "ascii":
					term = "\\0"
				}
				want := v
				if term != "" && !strings.HasSuffix(v, term) {
					want = v + term
				}
				dir := ty
				if dir == "" {
					dir = "string"
				}
				wantLines := label + "\n\t." + dir + " \"" + want + "\"\n"
				tried++
				out, err := vCompileMarkers(src, false, "")
				if err != nil {
					continue
				}
				if !strings.Contains(out, wantLines) {
					found++
					if found <= 3 {
						fmt.Printf("FAILING-INPUT %s: expected the block %q in the output %q\n", src, wantLines, out)
					}
				}
			}
		}
	}
	vReport("C09", tried, found)
}

// ---- C16: line markers are transparent and name the right source line ----

var vMarkerRe = regexp.MustCompile(`^# (\d+) "(.*)"$`)

func TestVerifSearch_C16(t *testing.T) {
	progs := []string{
		"script S {\n lock\n if (flag(A)) {\n  msgbox(\"hi\")\n }\n release\n}\n",
		"script S {\n switch (var(V)) {\n  case 1:\n   a\n  default:\n   b\n }\n}\n",
		"script S {\n if (checkitem(ITEM_X) == 1) {\n  x\n }\n}\n",
		"script S {\n switch (checkitem(ITEM_Y)) {\n  case 1: a\n }\n}\n",
		"script S {\n while (var(V) < 3) {\n  x\n  L:\n  y\n }\n}\n",
		"raw `\n line1\n line2\n`\n\nscript S { x }\n",
		"text T {\n \"one\"\n}\nmovement M {\n walk_up * 2\n walk_down\n}\nmart R {\n ITEM_A\n ITEM_B\n}\n",
		"mapscripts M {\n MAP_SCRIPT_ON_LOAD {\n  x\n }\n MAP_SCRIPT_ON_FRAME_TABLE [\n  VAR_A, 1 {\n   y\n  }\n ]\n}\n",
		"script S {\n applymovement(1, moves(\n  walk_up\n  walk_down))\n msgbox(format(\"a b c\"))\n}\n",
	}
	found, tried := 0, 0
	for _, src := range progs {
		tried++
		off, err1 := vCompileMarkers(src, false, "")
		on, err2 := vCompileMarkers(src, true, "dir/file.pory")
		if err1 != nil || err2 != nil {
			continue
		}
		nlines := strings.Count(src, "\n") + 1
		var stripped []string
		msg := ""
		for _, ln := range strings.Split(on, "\n") {
			if m := vMarkerRe.FindStringSubmatch(ln); m != nil {
				n, _ := strconv.Atoi(m[1])
				if n < 1 || n > nlines {
					msg = fmt.Sprintf("marker %q names line %d, the source has %d lines", ln, n, nlines)
				}
				if m[2] != "dir/file.pory" {
					msg = fmt.Sprintf("marker %q names another file", ln)
				}
				continue
			}
			stripped = append(stripped, ln)
		}
		if msg == "" && strings.Join(stripped, "\n") != off {
			msg = fmt.Sprintf("without its markers the output is %q, with markers off it is %q", strings.Join(stripped, "\n"), off)
		}
		if msg != "" {
			found++
			if found <= 3 {
				fmt.Printf("FAILING-INPUT %s: %s\n", strings.ReplaceAll(src, "\n", "\\n"), msg)
			}
		}
	}
	vReport("C16", tried, found)
}

// ---- C08: mapscripts emit complete, ordered, terminated tables ----

func TestVerifSearch_C08(t *testing.T) {
	found, tried := 0, 0
	for _, scope := range []string{"", "(local)"} {
		for nPlain := 0; nPlain <= 2; nPlain++ {
			for nTab := 0; nTab <= 2; nTab++ {
				for _, emptyBody := range []bool{false, true} {
					var src strings.Builder
					src.WriteString("mapscripts" + scope + " M {\n")
					colon := "::"
					if scope == "(local)" {
						colon = ":"
					}
					want := []string{"M" + colon}
					var after []string
					body := " x "
					if emptyBody {
						body = " "
					}
					for i := 0; i < nPlain; i++ {
						ty := fmt.Sprintf("TYPE_P%d", i)
						if i == 0 {
							src.WriteString(" " + ty + " {" + body + "}\n")
							want = append(want, "\tmap_script "+ty+", M_"+ty)
							after = append(after, "M_"+ty+":")
						} else {
							src.WriteString(" " + ty + ": Other\n")
							want = append(want, "\tmap_script "+ty+", Other")
						}
					}
					var tables [][]string
					for i := 0; i < nTab; i++ {
						ty := fmt.Sprintf("TYPE_T%d", i)
						src.WriteString(" " + ty + " [\n  VAR_A, 1 {" + body + "}\n  VAR_B, 2: Named\n ]\n")
						want = append(want, "\tmap_script "+ty+", M_"+ty)
						tables = append(tables, []string{"M_" + ty + ":", "\tmap_script_2 VAR_A, 1, M_" + ty + "_0", "\tmap_script_2 VAR_B, 2, Named", "\t.2byte 0", "M_" + ty + "_0:"})
					}
					src.WriteString("}\n")
					want = append(want, "\t.byte 0")
					want = append(want, after...)
					for _, tb := range tables {
						want = append(want, tb...)
					}
					tried++
					out, err := vCompileMarkers(src.String(), false, "")
					if err != nil {
						continue
					}
					// the wanted lines must occur in this order (other lines - bodies - may sit between them)
					pos := 0
					lines := strings.Split(out, "\n")
					missing := ""
					for _, w := range want {
						ok := false
						for pos < len(lines) {
							if lines[pos] == w {
								ok = true
								pos++
								break
							}
							pos++
						}
						if !ok {
							missing = w
							break
						}
					}
					if missing != "" {
						found++
						if found <= 3 {
							fmt.Printf("FAILING-INPUT %s: the line %q is missing or out of order in %q\n", strings.ReplaceAll(src.String(), "\n", " "), missing, out)
						}
					}
				}
			}
		}
	}
	vReport("C08", tried, found)
}
