package main

import (
	"os"
	"fmt"
	"go/constant"
	"go/types"
	"sort"
	"strings"

	"golang.org/x/tools/go/ssa"
)

func (e *Engine) sprintfTerm(format string, args, sorts []string) string {
	key := "sprintf|" + format + "|" + strings.Join(sorts, ",")
	name, ok := e.lits["\x00fmt\x00"+key]
	if !ok {
		name = fmt.Sprintf("sprintf!%d", len(e.ufOrder))
		e.lits["\x00fmt\x00"+key] = name
		e.ufunc(name, sorts, "Str")
		e.fmtOf = append(e.fmtOf, [2]string{name, format})
		e.fmtDefs = append(e.fmtDefs, e.sprintfDef(name, format, sorts))
	}
	return app(name, args...)
}

// sprintfDef gives the meaning of a format made of literal text, %s (string operand), %d (integer operand) and %%
// only: the concatenation of its segments, right-nested, so that two formats that spell the same text agree. Other
// formats stay uninterpreted.
func (e *Engine) sprintfDef(name, format string, sorts []string) string {
	var segs []string
	lit := ""
	k := 0
	flush := func() {
		if lit != "" {
			segs = append(segs, e.lit(lit))
			lit = ""
		}
	}
	for i := 0; i < len(format); i++ {
		ch := format[i]
		if ch != '%' {
			lit += string(ch)
			continue
		}
		i++
		if i >= len(format) {
			return ""
		}
		switch format[i] {
		case '%':
			lit += "%"
		case 's':
			if k >= len(sorts) || sorts[k] != "Str" {
				return ""
			}
			flush()
			segs = append(segs, fmt.Sprintf("a!%d", k))
			k++
		case 'd':
			if k >= len(sorts) || sorts[k] != "Int" {
				return ""
			}
			flush()
			segs = append(segs, fmt.Sprintf("(itoa a!%d)", k))
			k++
		default:
			return ""
		}
	}
	flush()
	if k != len(sorts) || len(sorts) == 0 {
		return ""
	}
	body := e.lit("")
	if len(segs) > 0 {
		body = segs[len(segs)-1]
		for j := len(segs) - 2; j >= 0; j-- {
			body = "(sconcat " + segs[j] + " " + body + ")"
		}
	}
	var bs, as []string
	for j, so := range sorts {
		bs = append(bs, fmt.Sprintf("(a!%d %s)", j, so))
		as = append(as, fmt.Sprintf("a!%d", j))
	}
	call := app(name, as...)
	return "(assert (forall (" + strings.Join(bs, " ") + ") (! (= " + call + " " + body + ") :pattern (" + call + "))))\n"
}

func (f *Frame) execCall(i *ssa.Call, st *State, r *string) Val {
	c := f.c
	com := i.Common()
	var args []Val
	for _, a := range com.Args {
		args = append(args, f.val(a))
	}
	if com.IsInvoke() {
		recv := f.val(com.Value)
		return f.callInvoke(i, com, recv, args, st, r)
	}
	switch v := com.Value.(type) {
	case *ssa.Builtin:
		return f.callBuiltin(i, v, args, st, *r)
	case *ssa.Function:
		if _, ok := c.eng.keyOf[v]; ok {
			return f.callRepo(i, v, args, nil, st, r)
		}
		return f.callLib(i, v, args, st, *r)
	}
	fv := f.val(com.Value)
	if fv.Fn != nil {
		if _, ok := c.eng.keyOf[fv.Fn.Fn]; ok {
			return f.callRepo(i, fv.Fn.Fn, args, fv.Fn.Bindings, st, r)
		}
		return f.callLib(i, fv.Fn.Fn, args, st, *r)
	}
	// call through a function-typed parameter / unknown function value
	if fv.FnK != "" {
		if fc2 := c.eng.cs.Funcs[fv.FnK]; fc2 != nil {
			return f.callContract(i, nil, fc2, fv.FnK, args, fv, st, *r)
		}
	}
	if f.fc != nil {
		name := ""
		switch p := com.Value.(type) {
		case *ssa.UnOp:
			if a, ok := p.X.(*ssa.Alloc); ok {
				name = a.Comment
			}
		case *ssa.Parameter:
			name = p.Name()
		}
		if k, ok := f.fc.FnParams[name]; ok {
			if fc2 := c.eng.cs.Funcs[k]; fc2 != nil {
				return f.callContract(i, nil, fc2, k, args, fv, st, *r)
			}
			c.errorf("fnparam %s: unknown contract %s", name, k)
		}
	}
	return f.havocCall(i, f.calleeModKeys(com), com.Signature().Results(), st, *r, "dynamic call")
}

func (f *Frame) resultVals(res *types.Tuple, st *State, r string, hint string) []Val {
	c := f.c
	var out []Val
	for k := 0; k < res.Len(); k++ {
		t := res.At(k).Type()
		s := c.eng.sortOf(t)
		v := Val{T: c.fresh("res."+hint, s), S: s, GT: t}
		out = append(out, v)
	}
	return out
}

func pack(vals []Val) Val {
	if len(vals) == 0 {
		return Val{}
	}
	if len(vals) == 1 {
		return vals[0]
	}
	return Val{Tup: vals}
}

// havocCall: unknown effect limited to the given keys (key-granular).
func (f *Frame) havocCall(i *ssa.Call, keys []string, res *types.Tuple, st *State, r string, why string) Val {
	c := f.c
	pre := c.nextRef(st)
	nr := c.fresh("nextRef", "Int")
	c.assume(r, "(<= "+pre+" "+nr+")")
	st.nextRef = nr
	for _, k := range keys {
		if _, ok := c.eng.heapSort[k]; !ok {
			continue
		}
		st.heap[k] = c.fresh("hv."+k, "(Array Int "+c.eng.heapSort[k]+")")
	}
	vals := f.resultVals(res, st, r, "call")
	for k, v := range vals {
		c.assumeTyped(st, r, v, res.At(k).Type())
	}
	return pack(vals)
}

func (f *Frame) callInvoke(i *ssa.Call, com *ssa.CallCommon, recv Val, args []Val, st *State, r *string) Val {
	c := f.c
	it, _ := com.Value.Type().Underlying().(*types.Interface)
	mname := com.Method.Name()
	// error.Error()
	if mname == "Error" && com.Signature().Params().Len() == 0 {
		return tv("(errText "+recv.T+")", "Str")
	}
	f.safe("nil", i.Pos(), *r, "(not (= "+recv.T+" 0))", isCallExpr)
	// interface method contract?
	if n, ok := com.Value.Type().(*types.Named); ok {
		key := namedKey(n) + "." + mname
		if fc2 := c.eng.cs.Funcs[key]; fc2 != nil {
			return f.callContract(i, nil, fc2, key, args, recv, st, *r)
		}
	}
	var keys []string
	set := map[string]bool{}
	if it != nil {
		for _, g := range c.eng.implementations(it, mname) {
			for k := range c.eng.modsets[g] {
				set[k] = true
			}
		}
	}
	for k := range set {
		keys = append(keys, k)
	}
	sort.Strings(keys)
	return f.havocCall(i, keys, com.Signature().Results(), st, *r, "invoke")
}

func (f *Frame) callRepo(i *ssa.Call, g *ssa.Function, args []Val, bindings []Val, st *State, r *string) Val {
	c := f.c
	key := c.eng.keyOf[g]
	fc2 := c.eng.cs.Funcs[key]
	if fc2 != nil && !fc2.Inline {
		return f.callContract(i, g, fc2, key, args, Val{}, st, *r)
	}
	if c.canInline(g, f.depth) || (f.topFrame().fc != nil && f.depth < 4 && c.inlining[g] == 0 && c.loopInlinee(i) == g && instrCount(g) < 400) {
		return f.inlineCall(i, g, args, bindings, st, r)
	}
	return f.havocCall(i, c.eng.modsetList(g), g.Signature.Results(), st, *r, key)
}

func (c *Ctx) canInline(g *ssa.Function, depth int) bool {
	if depth >= 6 || c.inlining[g] > 0 {
		return false
	}
	if g == c.fn {
		return false
	}
	n := 0
	for _, b := range g.Blocks {
		n += len(b.Instrs)
		for _, s := range b.Succs {
			if s.Dominates(b) {
				return false // has a loop
			}
		}
	}
	return n < 400
}

func instrCount(g *ssa.Function) int {
	n := 0
	for _, b := range g.Blocks {
		n += len(b.Instrs)
	}
	return n
}

func (f *Frame) inlineCall(i *ssa.Call, g *ssa.Function, args []Val, bindings []Val, st *State, r *string) Val {
	c := f.c
	if c.inlining == nil {
		c.inlining = map[*ssa.Function]int{}
	}
	c.inlining[g]++
	defer func() { c.inlining[g]-- }()
	key := c.eng.keyOf[g]
	short := key[strings.Index(key, ".")+1:]
	f.exprN["inl:"+short]++
	g2 := c.newFrame(g, f.depth+1, fmt.Sprintf("%sinl:%s#%d/", f.prefix, short, f.exprN["inl:"+short]))
	g2.fc = nil
	if hasLoop(g) {
		g2.up = f
		g2.upBlk = f.cur
		g2.ordBase = f.ordBaseFor(i)
	}
	work := st.clone()
	g2.run(work, *r, args, bindings)
	if len(g2.rets) == 0 {
		// callee never returns (always panics)
		*r = "false"
		return pack(f.resultVals(g.Signature.Results(), st, "false", "noret"))
	}
	var ins []edge
	for _, rt := range g2.rets {
		ins = append(ins, edge{cond: rt.reach, st: rt.st})
	}
	merged := g2.merge(ins, nil)
	for a := range merged.cells {
		if a.Parent() == g {
			delete(merged.cells, a)
		}
	}
	*st = *merged
	// reach after the call
	if len(g2.rets) == 1 {
		*r = g2.rets[0].reach
	} else {
		var cs []string
		for _, rt := range g2.rets {
			cs = append(cs, rt.reach)
		}
		nr := c.fresh("rc", "Bool")
		c.fact("(= " + nr + " (or " + strings.Join(cs, " ") + "))")
		*r = nr
	}
	// merge results
	nres := g.Signature.Results().Len()
	var vals []Val
	for k := 0; k < nres; k++ {
		first := g2.rets[0].vals[k]
		same := true
		for _, rt := range g2.rets[1:] {
			if rt.vals[k].T != first.T {
				same = false
			}
		}
		if same {
			vals = append(vals, first)
			continue
		}
		if len(first.Tup) > 0 || first.T == "" {
			c.errorf("cannot merge non-scalar results of inlined %s", key)
			vals = append(vals, first)
			continue
		}
		m := c.fresh("ir", first.S)
		for _, rt := range g2.rets {
			c.fact("(=> " + rt.reach + " (= " + m + " " + rt.vals[k].T + "))")
		}
		nv := first
		nv.T = m
		nv.Fn = nil
		nv.Origin = nil
		vals = append(vals, nv)
	}
	return pack(vals)
}

// callContract: modular call against a contract. g may be nil (interface method / fnparam).
func (f *Frame) callContract(i *ssa.Call, g *ssa.Function, fc2 *FuncContract, key string, args []Val, self Val, st *State, r string) Val {
	c := f.c
	short := key[strings.Index(key, ".")+1:]
	f.exprN["call:"+short]++
	site := fmt.Sprintf("%s#%d", short, f.exprN["call:"+short])
	ev := &EvalCtx{c: c, pkg: fc2.Pkg, st: st, old: st, vars: map[string]SVal{}, reach: r}
	var resT *types.Tuple
	var modKeys []string
	if g != nil {
		for old, k := range c.eng.paramAliases(g) {
			if k < len(args) {
				ev.vars[old] = SVal{T: args[k].T, S: args[k].S, GT: g.Params[k].Type()}
			}
		}
		for k, p := range g.Params {
			ev.vars[p.Name()] = SVal{T: args[k].T, S: args[k].S, GT: p.Type()}
			if args[k].T == "" && args[k].Fn == nil {
				// non-scalar argument (should not happen for contracted callees)
			}
		}
		resT = g.Signature.Results()
		modKeys = c.eng.modsetList(g)
	} else {
		sig := i.Common().Signature()
		names := c.eng.contractParamNames(key, nil)
		for k, a := range args {
			gt := a.GT
			if k < sig.Params().Len() {
				gt = sig.Params().At(k).Type()
			}
			ev.vars[fmt.Sprintf("arg%d", k)] = SVal{T: a.T, S: a.S, GT: gt}
			if k < len(names) {
				ev.vars[names[k]] = SVal{T: a.T, S: a.S, GT: gt}
			}
		}
		if self.T != "" {
			ev.vars["self"] = SVal{T: self.T, S: self.S, GT: self.GT}
		}
		resT = sig.Results()
		modKeys = f.calleeModKeys(i.Common())
	}
	// a function that implements a no-body contract also offers that contract's clauses to its callers
	reqs, enss, mods := fc2.Requires, fc2.Ensures, fc2.Modifies
	if g != nil && fc2.Implements != "" {
		if kfc := c.eng.cs.Funcs[fc2.Implements]; kfc != nil {
			off := 0
			if g.Signature.Recv() != nil && len(args) > 0 {
				off = 1
				ev.vars["self"] = SVal{T: args[0].T, S: args[0].S, GT: g.Params[0].Type()}
			}
			names := c.eng.contractParamNames(fc2.Implements, g)
			for k := off; k < len(g.Params) && k < len(args); k++ {
				sv := SVal{T: args[k].T, S: args[k].S, GT: g.Params[k].Type()}
				ev.vars[fmt.Sprintf("arg%d", k-off)] = sv
				if k-off < len(names) {
					if _, own := ev.vars[names[k-off]]; !own {
						ev.vars[names[k-off]] = sv
					}
				}
			}
			reqs = append(append([]*Clause{}, kfc.Requires...), reqs...)
			enss = append(append([]*Clause{}, kfc.Ensures...), enss...)
			mods = append(append([]*Clause{}, kfc.Modifies...), mods...)
		}
	}
	f.checkFnArgs(i, g, fc2, key, args, site, r)
	// recursion: progress of the caller's termination measure at a call inside a recursive component
	if os.Getenv("GOVC_DEBUG_SCC") != "" {
		fmt.Fprintf(os.Stderr, "call %s -> %s fc=%v decr=%v rec=%v\n", c.key, key, f.fc != nil, f.fc != nil && f.fc.LoopDecr != nil, c.eng.recursive(c.key, key))
	}
	if f.fc != nil && f.fc.LoopDecr != nil && len(f.fc.LoopDecr.Exprs) == 1 {
		var callees []string
		if g != nil {
			if c.eng.recursive(c.key, key) {
				callees = []string{key}
			}
		} else {
			for k, c2 := range c.eng.cs.Funcs {
				if c2.Implements == key && c.eng.recursive(c.key, k) {
					callees = append(callees, k)
				}
			}
			sort.Strings(callees)
		}
		if len(callees) > 0 {
			cur := f.evalCtx(st, r)
			if cur.old != nil {
				now, err1 := cur.eval(f.fc.LoopDecr.Exprs[0])
				ent, err2 := cur.eval(&Expr{Op: "call", Name: "old", Args: []*Expr{f.fc.LoopDecr.Exprs[0]}})
				if err1 != nil || err2 != nil {
					c.errorf("recursion measure at call to %s: %v %v", key, err1, err2)
				}
				if err1 == nil && err2 == nil {
					goal := "(and (<= 0 " + now.T + ") (< " + now.T + " " + ent.T + "))"
					if ta := f.fc.TermAssume; ta != nil {
						if a, err := cur.evalBool(ta.Expr); err == nil {
							goal = "(=> " + a + " " + goal + ")"
						}
					}
					for _, k := range callees {
						if ob := f.oblige("rec-progress@"+site, nil, r, goal); ob != nil {
							ob.Kind = "rec-progress"
							ob.RecCallee = k
							ob.Props = []string{"C18"}
							ob.Clause = "progress before the recursive call: " + f.fc.LoopDecr.Text + " is smaller than at entry (may fail: see scan[C18:recursion])"
						} else {
							// same goal as an earlier call site: remember the edge on that obligation's record
							c.recEdges = append(c.recEdges, [2]string{c.key, k})
						}
					}
				}
			}
		}
	}
	// implicit: receiver non-nil
	if g != nil && g.Signature.Recv() != nil && len(args) > 0 && !fc2.Nullable[g.Params[0].Name()] {
		f.oblige("pre[nonnil]@"+site, nil, r, "(not (= "+args[0].T+" 0))")
	}
	for _, rq := range reqs {
		goal, err := c.skolemGoal(rq.Expr, ev, r)
		if err != nil {
			c.errorf("%s: requires of %s at call: %v", rq.Where, key, err)
			f.unbound("pre"+rq.Tag()+"@"+site, rq, err)
			continue
		}
		ob := f.oblige("pre"+rq.Tag()+"@"+site, rq, r, goal)
		_ = ob
	}
	pre := st.clone()
	objs, err := ev.modifiesObjects(mods)
	if err != nil {
		c.errorf("%s: modifies of %s: %v", fc2.Where, key, err)
	}
	// post state
	if !fc2.Pure {
		preNext := c.nextRef(st)
		nr := c.fresh("nextRef", "Int")
		c.assume(r, "(<= "+preNext+" "+nr+")")
		st.nextRef = nr
		// explicit modifies keys are always havocked, even if the syntactic modset misses them
		kset := map[string]bool{}
		for _, k := range modKeys {
			kset[k] = true
		}
		for k := range objs {
			if !strings.HasPrefix(k, "ghost:") {
				kset[k] = true
			}
		}
		var keys []string
		for k := range kset {
			keys = append(keys, k)
		}
		sort.Strings(keys)
		for _, k := range keys {
			if _, ok := c.eng.heapSort[k]; !ok {
				continue
			}
			oldH := c.heapTerm(pre, k)
			nh := c.fresh("ph."+k, "(Array Int "+c.eng.heapSort[k]+")")
			st.heap[k] = nh
			c.assume(r, c.frameFormula(k, oldH, nh, preNext, objs[k]))
		}
		for k := range objs {
			if strings.HasPrefix(k, "ghost:") {
				name := strings.TrimPrefix(k, "ghost:")
				gv := c.eng.cs.Ghosts[name]
				s, _ := c.eng.resolveType(gv.Pkg, gv.Type)
				st.ghosts[name] = c.fresh("pg."+name, s)
			}
		}
	}
	vals := f.resultVals(resT, st, r, short)
	{
		if f.calls == nil {
			f.calls = map[string][]callRec{}
		}
		nm := short
		if j := strings.LastIndex(nm, "."); j >= 0 {
			nm = nm[j+1:]
		}
		f.calls[nm] = append(f.calls[nm], callRec{blk: f.cur, res: vals, args: args})
	}
	for k, v := range vals {
		c.assumeTyped(st, r, v, resT.At(k).Type())
	}
	post := &EvalCtx{c: c, pkg: fc2.Pkg, st: st, old: pre, vars: map[string]SVal{}, reach: r}
	for k, v := range ev.vars {
		post.vars[k] = v
	}
	bindResults(post.vars, resT, vals)
	for _, df := range fc2.GhostDefs {
		// the callee's ghost assignment at its return (its right-hand side speaks about old() ghost values and results)
		if df.Expr.Op != "binary" || df.Expr.Args[0].Op != "ident" {
			continue
		}
		name := df.Expr.Args[0].Name
		v, err := post.eval(df.Expr.Args[1])
		if err != nil {
			c.errorf("%s: defines of %s at call: %v", df.Where, key, err)
			continue
		}
		c.assume(r, "(= "+c.ghostTerm(st, name)+" "+v.T+")")
	}
	for _, en := range enss {
		g2, err := post.evalBool(en.Expr)
		if err != nil {
			c.errorf("%s: ensures of %s at call: %v", en.Where, key, err)
			continue
		}
		c.curTag = en.Label
		c.assume(r, g2)
		c.noteHyp(en.Expr, post, r)
		c.curTag = ""
	}
	return pack(vals)
}

func bindResults(vars map[string]SVal, resT *types.Tuple, vals []Val) {
	for k, v := range vals {
		sv := SVal{T: v.T, S: v.S, GT: resT.At(k).Type()}
		vars[fmt.Sprintf("result%d", k)] = sv
		if k == 0 {
			vars["result"] = sv
		}
		if n := resT.At(k).Name(); n != "" && n != "_" {
			vars[n] = sv
		}
	}
}

// ---------- builtins ----------

func (f *Frame) callBuiltin(i *ssa.Call, b *ssa.Builtin, args []Val, st *State, r string) Val {
	c := f.c
	switch b.Name() {
	case "len":
		x := args[0]
		switch {
		case x.S == "Str":
			return tv("(slen "+x.T+")", "Int")
		case isSliceSort(x.S):
			return tv(c.slLen(x), "Int")
		}
		if m, ok := i.Common().Args[0].Type().Underlying().(*types.Map); ok {
			_, _, ln := c.eng.mapKeys(m)
			v := tv("(select "+c.heapTerm(st, ln)+" "+x.T+")", "Int")
			c.assume(r, "(<= 0 "+v.T+")")
			// cardinality: a map of positive length has a key; a map of length 0 has none
			dom, _, _ := c.eng.mapKeys(m)
			ks := c.eng.sortOf(m.Key())
			d := "(select " + c.heapTerm(st, dom) + " " + x.T + ")"
			c.assume(r, "(=> (= "+v.T+" 0) (forall ((k! "+ks+")) (! (not (select "+d+" k!)) :pattern ((select "+d+" k!)))))")
			c.assume(r, "(=> (< 0 "+v.T+") (exists ((k! "+ks+")) (select "+d+" k!)))")
			return v
		}
		c.errorf("len of unsupported value")
		return tv("0", "Int")
	case "cap":
		x := args[0]
		v := c.fresh("cap", "Int")
		c.assume(r, "(<= "+c.slLen(x)+" "+v+")")
		return tv(v, "Int")
	case "append":
		s := args[0]
		el := args[1]
		if el.IsArr {
			cur := s
			for _, x := range el.Arr {
				cur = Val{T: c.mkSlice(s.S, "(store "+c.slArr(cur)+" "+plus(c.slOff(cur), c.slLen(cur))+" "+x.T+")", c.slOff(cur), "(+ "+c.slLen(cur)+" 1)"), S: s.S}
				cur.T = c.name(cur.T, s.S, "app")
			}
			cur.GT = i.Type()
			return cur
		}
		if el.S == "Str" {
			c.errorf("append(bytes, string...) unsupported")
			return s
		}
		// append(s, t...)
		res := Val{T: c.fresh("appall", s.S), S: s.S, GT: i.Type()}
		c.assume(r, "(= "+c.slLen(res)+" (+ "+c.slLen(s)+" "+c.slLen(el)+"))")
		c.assume(r, "(= "+c.slOff(res)+" 0)")
		c.assume(r, "(forall ((k! Int)) (! (=> (and (<= 0 k!) (< k! "+c.slLen(s)+")) (= (select "+c.slArr(res)+" k!) (select "+c.slArr(s)+" (+ "+c.slOff(s)+" k!)))) :pattern ((select "+c.slArr(res)+" k!))))")
		c.assume(r, "(forall ((k! Int)) (! (=> (and (<= 0 k!) (< k! "+c.slLen(el)+")) (= (select "+c.slArr(res)+" (+ "+c.slLen(s)+" k!)) (select "+c.slArr(el)+" (+ "+c.slOff(el)+" k!)))) :pattern ((select "+c.slArr(el)+" (+ "+c.slOff(el)+" k!)))))")
		c.assume(r, "(forall ((k! Int)) (! (=> (and (<= "+c.slLen(s)+" k!) (< k! "+c.slLen(res)+")) (= (select "+c.slArr(res)+" k!) (select "+c.slArr(el)+" "+plus(c.slOff(el), "(- k! "+c.slLen(s)+")")+"))) :pattern ((select "+c.slArr(res)+" k!))))")
		return res
	case "delete":
		m := args[0]
		k := args[1]
		mt := i.Common().Args[0].Type().Underlying().(*types.Map)
		dom, _, ln := c.eng.mapKeys(mt)
		d := "(select " + c.heapTerm(st, dom) + " " + m.T + ")"
		l := "(select " + c.heapTerm(st, ln) + " " + m.T + ")"
		// delete on a nil map is a no-op
		st.heap[ln] = c.name("(store "+c.heapTerm(st, ln)+" "+m.T+" (ite (select "+d+" "+k.T+") (- "+l+" 1) "+l+"))", "(Array Int Int)", "h")
		st.heap[dom] = c.name("(store "+c.heapTerm(st, dom)+" "+m.T+" (store "+d+" "+k.T+" false))", "(Array Int "+c.eng.heapSort[dom]+")", "h")
		return Val{}
	case "ssa:deferstack":
		return tv("0", "Int")
	case "ssa:wrapnilchk":
		return args[0]
	}
	c.errorf("unsupported builtin %s", b.Name())
	return tv("0", "Int")
}

// ---------- library models ----------

func constString(v ssa.Value) (string, bool) {
	if k, ok := v.(*ssa.Const); ok && k.Value != nil && k.Value.Kind() == constant.String {
		return constant.StringVal(k.Value), true
	}
	return "", false
}

func (f *Frame) builderWrite(st *State, sb Val, piece string, nbytes string) {
	c := f.c
	hp := c.heapTerm(st, "H.strings.Builder.pieces")
	hn := c.heapTerm(st, "H.strings.Builder.nbytes")
	cur := Val{T: "(select " + hp + " " + sb.T + ")", S: "Sl.Str"}
	ns := c.mkSlice("Sl.Str", "(store "+c.slArr(cur)+" "+plus(c.slOff(cur), c.slLen(cur))+" "+piece+")", c.slOff(cur), "(+ "+c.slLen(cur)+" 1)")
	st.heap["H.strings.Builder.pieces"] = c.name("(store "+hp+" "+sb.T+" "+ns+")", "(Array Int Sl.Str)", "h")
	st.heap["H.strings.Builder.nbytes"] = c.name("(store "+hn+" "+sb.T+" (+ (select "+hn+" "+sb.T+") "+nbytes+"))", "(Array Int Int)", "h")
}

func (f *Frame) newError(st *State, r string, text string) Val {
	c := f.c
	ref := c.newObject(st, r, "err")
	c.assume(r, "(= (typeOf "+ref+") "+c.eng.tag("stderror")+")")
	c.assume(r, "(= (errText "+ref+") "+text+")")
	return Val{T: ref, S: "Int"}
}

func (f *Frame) callLib(i *ssa.Call, g *ssa.Function, args []Val, st *State, r string) Val {
	c := f.c
	name := g.String()
	com := i.Common()
	switch name {
	case "fmt.Sprintf", "fmt.Errorf":
		format, ok := constString(com.Args[0])
		var t string
		if !ok {
			c.errorf("non-literal format string in %s", f.fn.Name())
			t = c.fresh("fmt", "Str")
		} else {
			var ts, ss []string
			for _, a := range args[1].Arr {
				if a.T == "" {
					c.errorf("non-scalar Sprintf argument")
					continue
				}
				ts = append(ts, a.T)
				ss = append(ss, a.S)
			}
			t = c.eng.sprintfTerm(format, ts, ss)
		}
		if name == "fmt.Errorf" {
			return f.newError(st, r, t)
		}
		return tv(t, "Str")
	case "fmt.Fprintf":
		// fmt.Fprintf(&sb, format, args...) with a strings.Builder: one write of the formatted string
		if mi, ok := com.Args[0].(*ssa.MakeInterface); ok && strings.HasSuffix(mi.X.Type().String(), "strings.Builder") {
			if format, ok := constString(com.Args[1]); ok {
				var ts, ss []string
				for _, a := range args[2].Arr {
					if a.T == "" {
						c.errorf("non-scalar Fprintf argument")
						continue
					}
					ts = append(ts, a.T)
					ss = append(ss, a.S)
				}
				t := c.eng.sprintfTerm(format, ts, ss)
				f.safe("nil", i.Pos(), r, "(not (= "+args[0].T+" 0))", isCallExpr)
				f.builderWrite(st, args[0], t, "(slen "+t+")")
				return Val{Tup: []Val{tv("(slen "+t+")", "Int"), tv("0", "Int")}}
			}
		}
		c.errorf("fmt.Fprintf on something other than a strings.Builder with a literal format in %s", f.fn.Name())
		return Val{Tup: []Val{tv(c.fresh("n", "Int"), "Int"), tv("0", "Int")}}
	case "errors.New":
		return f.newError(st, r, args[0].T)
	case "(*strings.Builder).WriteString":
		f.safe("nil", i.Pos(), r, "(not (= "+args[0].T+" 0))", isCallExpr)
		f.builderWrite(st, args[0], args[1].T, "(slen "+args[1].T+")")
		return Val{Tup: []Val{tv("(slen "+args[1].T+")", "Int"), tv("0", "Int")}}
	case "(*strings.Builder).WriteByte":
		f.builderWrite(st, args[0], "(byteStr "+args[1].T+")", "1")
		return tv("0", "Int")
	case "(*strings.Builder).WriteRune":
		f.builderWrite(st, args[0], "(runeStr "+args[1].T+")", "(slen (runeStr "+args[1].T+"))")
		return Val{Tup: []Val{tv("(slen (runeStr "+args[1].T+"))", "Int"), tv("0", "Int")}}
	case "(*strings.Builder).String":
		p := "(select " + c.heapTerm(st, "H.strings.Builder.pieces") + " " + args[0].T + ")"
		m := "(select " + c.heapTerm(st, "H.strings.Builder.markers") + " " + args[0].T + ")"
		n := "(select " + c.heapTerm(st, "H.strings.Builder.nbytes") + " " + args[0].T + ")"
		res := c.name("(bstr2 "+p+" "+m+")", "Str", "bs")
		c.assume(r, "(=> (= (Sl.Str..len "+m+") 0) (= (slen "+res+") "+n+"))")
		return tv(res, "Str")
	case "(*strings.Builder).Len":
		n := "(select " + c.heapTerm(st, "H.strings.Builder.nbytes") + " " + args[0].T + ")"
		c.assume(r, "(<= 0 "+n+")")
		return tv(n, "Int")
	case "(*strings.Builder).Reset":
		st.heap["H.strings.Builder.pieces"] = "(store " + c.heapTerm(st, "H.strings.Builder.pieces") + " " + args[0].T + " " + c.eng.zero("Sl.Str") + ")"
		st.heap["H.strings.Builder.markers"] = "(store " + c.heapTerm(st, "H.strings.Builder.markers") + " " + args[0].T + " " + c.eng.zero("Sl.Str") + ")"
		st.heap["H.strings.Builder.nbytes"] = "(store " + c.heapTerm(st, "H.strings.Builder.nbytes") + " " + args[0].T + " 0)"
		return Val{}
	case "strings.Join":
		c.eng.sliceSort("Str")
		return tv("(joinStr "+args[0].T+" "+args[1].T+")", "Str")
	case "strings.Split":
		c.eng.sliceSort("Str")
		v := Val{T: "(splitStr " + args[0].T + " " + args[1].T + ")", S: "Sl.Str", GT: i.Type()}
		c.assume(r, "(and (<= 1 "+c.slLen(v)+") (= "+c.slOff(v)+" 0))")
		return v
	case "strings.ReplaceAll":
		return tv("(replaceAll "+args[0].T+" "+args[1].T+" "+args[2].T+")", "Str")
	case "strings.HasSuffix":
		return tv("(hasSuffix "+args[0].T+" "+args[1].T+")", "Bool")
	case "strings.HasPrefix":
		return tv("(hasPrefix "+args[0].T+" "+args[1].T+")", "Bool")
	case "strings.Contains":
		return tv("(containsStr "+args[0].T+" "+args[1].T+")", "Bool")
	case "strings.TrimRightFunc":
		return tv("(trimRightSpace "+args[0].T+")", "Str")
	case "unicode.IsLetter":
		return tv("(uIsLetter "+args[0].T+")", "Bool")
	case "unicode.IsDigit":
		return tv("(uIsDigit "+args[0].T+")", "Bool")
	case "unicode.IsSpace":
		return tv("(uIsSpace "+args[0].T+")", "Bool")
	case "unicode/utf8.DecodeRuneInString":
		s, p := args[0].T, "0"
		// recognise input[p:]
		if strings.HasPrefix(s, "(substr ") {
			parts := splitTop(s[1 : len(s)-1])
			if len(parts) == 4 && parts[3] == "(slen "+parts[1]+")" {
				s, p = parts[1], parts[2]
			}
		}
		rn := "(runeAt " + s + " " + p + ")"
		sz := "(sizeAt " + s + " " + p + ")"
		c.assume(r, "(=> (< "+p+" (slen "+s+")) (and (<= 1 "+sz+") (<= "+sz+" 4) (<= (+ "+p+" "+sz+") (slen "+s+"))))")
		return Val{Tup: []Val{tv(rn, "Int"), tv(sz, "Int")}}
	case "unicode/utf8.RuneLen":
		// byte length of the encoding of a (valid) rune
		return tv("(slen (runeStr "+args[0].T+"))", "Int")
	case "strconv.ParseInt":
		errv := c.fresh("perr", "Int")
		c.assume(r, "(and (<= 0 "+errv+") (= (= "+errv+" 0) (parseOK "+args[0].T+")))")
		return Val{Tup: []Val{tv("(intOf "+args[0].T+")", "Int"), Val{T: errv, S: "Int"}}}
	case "log.Printf", "log.Println", "log.Print":
		return Val{}
	case "sort.Strings":
		s := args[0]
		res := Val{T: c.fresh("sorted", s.S), S: s.S}
		c.assume(r, "(= "+c.slLen(res)+" "+c.slLen(s)+")")
		c.nfresh++
		pm := fmt.Sprintf("sortperm!%d", c.nfresh)
		c.decls = append(c.decls, "(declare-fun "+pm+" (Int) Int)")
		c.assume(r, "(forall ((a! Int)) (! (=> (and (<= 0 a!) (< a! "+c.slLen(res)+")) (and (<= 0 ("+pm+" a!)) (< ("+pm+" a!) "+c.slLen(s)+") (= (select "+c.slArr(res)+" a!) (select "+c.slArr(s)+" ("+pm+" a!))))) :pattern ((select "+c.slArr(res)+" a!))))")
		c.assume(r, "(forall ((a! Int) (b! Int)) (! (=> (and (<= 0 a!) (< a! b!) (< b! "+c.slLen(res)+")) (and (not (= ("+pm+" a!) ("+pm+" b!))) (not (strlt (select "+c.slArr(res)+" b!) (select "+c.slArr(res)+" a!))))) :pattern (("+pm+" a!) ("+pm+" b!))))")
		if s.Origin != nil {
			c.store(st, s.Origin, res)
		} else {
			c.errorf("sort.Strings on a slice without tracked origin")
		}
		return Val{}
	case "sort.Ints":
		s := args[0]
		res := Val{T: c.fresh("sorted", s.S), S: s.S}
		c.assume(r, "(= "+c.slLen(res)+" "+c.slLen(s)+")")
		c.assume(r, "(= "+c.slOff(res)+" 0)")
		c.assume(r, "(forall ((a! Int) (b! Int)) (! (=> (and (<= 0 a!) (< a! b!) (< b! "+c.slLen(res)+")) (<= (select "+c.slArr(res)+" a!) (select "+c.slArr(res)+" b!))) :pattern ((select "+c.slArr(res)+" a!) (select "+c.slArr(res)+" b!))))")
		// the result is a rearrangement of the argument: res[a] == s[perm(a)] for an injective perm on [0,len)
		c.nfresh++
		pm := fmt.Sprintf("sortperm!%d", c.nfresh)
		c.decls = append(c.decls, "(declare-fun "+pm+" (Int) Int)")
		c.assume(r, "(forall ((a! Int)) (! (=> (and (<= 0 a!) (< a! "+c.slLen(res)+")) (and (<= 0 ("+pm+" a!)) (< ("+pm+" a!) "+c.slLen(s)+") (= (select "+c.slArr(res)+" a!) (select "+c.slArr(s)+" ("+pm+" a!))))) :pattern ((select "+c.slArr(res)+" a!))))")
		c.assume(r, "(forall ((a! Int) (b! Int)) (! (=> (and (<= 0 a!) (< a! b!) (< b! "+c.slLen(res)+")) (not (= ("+pm+" a!) ("+pm+" b!)))) :pattern (("+pm+" a!) ("+pm+" b!))))")
		// ... and nothing is lost: every element of the argument occurs in the result (inverse of perm)
		c.decls = append(c.decls, "(declare-fun "+pm+".inv (Int) Int)")
		c.assume(r, "(forall ((a! Int)) (! (=> (and (<= 0 a!) (< a! "+c.slLen(s)+")) (and (<= 0 ("+pm+".inv a!)) (< ("+pm+".inv a!) "+c.slLen(res)+") (= (select "+c.slArr(res)+" ("+pm+".inv a!)) (select "+c.slArr(s)+" a!)))) :pattern ((select "+c.slArr(s)+" a!))))")
		if s.Origin != nil {
			c.store(st, s.Origin, res)
		} else {
			c.errorf("sort.Ints on a slice without tracked origin")
		}
		return Val{}
	}
	// unknown external: results arbitrary, no effect on the modelled heap (assumption, listed)
	c.external[name] = true
	vals := f.resultVals(g.Signature.Results(), st, r, "ext")
	for k, v := range vals {
		c.assumeTyped(st, r, v, g.Signature.Results().At(k).Type())
	}
	if len(vals) > 0 {
		pre := c.nextRef(st)
		nr := c.fresh("nextRef", "Int")
		c.assume(r, "(<= "+pre+" "+nr+")")
		st.nextRef = nr
	}
	return pack(vals)
}

// splitTop splits an s-expression body at top-level spaces.
func splitTop(s string) []string {
	var out []string
	depth, start := 0, 0
	for i := 0; i < len(s); i++ {
		switch s[i] {
		case '(':
			depth++
		case ')':
			depth--
		case ' ':
			if depth == 0 {
				if i > start {
					out = append(out, s[start:i])
				}
				start = i + 1
			}
		}
	}
	if start < len(s) {
		out = append(out, s[start:])
	}
	return out
}

// checkFnArgs: function values passed for parameters that carry a function-parameter contract must
// themselves be bound to that contract (a closure/function that `implements` it, or the caller's own
// parameter declared with the same contract).
func (f *Frame) checkFnArgs(i *ssa.Call, g *ssa.Function, fc2 *FuncContract, key string, args []Val, site string, r string) {
	c := f.c
	if len(fc2.FnParams) == 0 {
		return
	}
	com := i.Common()
	var names []string
	var vals []ssa.Value
	if g != nil {
		for _, p := range g.Params {
			names = append(names, p.Name())
		}
		vals = com.Args
	} else {
		names = c.eng.contractParamNames(key, nil)
		vals = com.Args
	}
	for k, n := range names {
		want, ok := fc2.FnParams[n]
		if !ok || k >= len(args) || k >= len(vals) {
			continue
		}
		okBound := false
		if args[k].Fn != nil {
			if fk, ok := c.eng.keyOf[args[k].Fn.Fn]; ok {
				if fc3 := c.eng.cs.Funcs[fk]; fc3 != nil && fc3.Implements == want {
					okBound = true
				}
			}
		} else if args[k].FnK == want {
			okBound = true
		} else if f.fc != nil {
			// the caller's own parameter (loaded from its cell)
			var pn string
			switch v := vals[k].(type) {
			case *ssa.UnOp:
				if a, ok := v.X.(*ssa.Alloc); ok {
					pn = a.Comment
				}
			case *ssa.Parameter:
				pn = v.Name()
			}
			if f.fc.FnParams[pn] == want {
				okBound = true
			}
		}
		if !okBound {
			f.oblige("subtype["+want+"]@"+site+":"+n, nil, r, "false")
		}
	}
}
