package main

// Specification expression language (Gobra-flavoured) and its parser.

import (
	"fmt"
	"strings"
	"unicode"
)

type Param struct {
	Name string
	Type *TypeExpr
}

// TypeExpr is a parsed spec-level type.
type TypeExpr struct {
	Kind string // "name", "ptr", "slice", "seq", "set", "map"
	Pkg  string // for "name": optional package qualifier
	Name string
	Elem *TypeExpr
	Key  *TypeExpr
}

func (t *TypeExpr) String() string {
	switch t.Kind {
	case "name":
		if t.Pkg != "" {
			return t.Pkg + "." + t.Name
		}
		return t.Name
	case "ptr":
		return "*" + t.Elem.String()
	case "slice":
		return "[]" + t.Elem.String()
	case "seq":
		return "seq[" + t.Elem.String() + "]"
	case "set":
		return "set[" + t.Elem.String() + "]"
	case "map":
		return "map[" + t.Key.String() + "]" + t.Elem.String()
	}
	return "?"
}

type Expr struct {
	Op   string // ident int str char bool nil unary binary cond call select index slice forall exists
	Name string // ident name, operator, field name, callee name
	Args []*Expr
	Vars []Param
	Trig [][]*Expr // quantifier triggers
}

func (e *Expr) String() string {
	switch e.Op {
	case "ident", "int", "bool", "nil":
		return e.Name
	case "str":
		return fmt.Sprintf("%q", e.Name)
	case "char":
		return "'" + e.Name + "'"
	case "unary":
		return e.Name + e.Args[0].String()
	case "binary":
		return "(" + e.Args[0].String() + " " + e.Name + " " + e.Args[1].String() + ")"
	case "cond":
		return "(" + e.Args[0].String() + " ? " + e.Args[1].String() + " : " + e.Args[2].String() + ")"
	case "call":
		var a []string
		for _, x := range e.Args {
			a = append(a, x.String())
		}
		return e.Name + "(" + strings.Join(a, ", ") + ")"
	case "select":
		return e.Args[0].String() + "." + e.Name
	case "index":
		return e.Args[0].String() + "[" + e.Args[1].String() + "]"
	case "slice":
		lo, hi := "", ""
		if e.Args[1] != nil {
			lo = e.Args[1].String()
		}
		if e.Args[2] != nil {
			hi = e.Args[2].String()
		}
		return e.Args[0].String() + "[" + lo + ":" + hi + "]"
	case "forall", "exists":
		var vs []string
		for _, v := range e.Vars {
			vs = append(vs, v.Name+" "+v.Type.String())
		}
		return "(" + e.Op + " " + strings.Join(vs, ", ") + " :: " + e.Args[0].String() + ")"
	}
	return "?"
}

type tok struct {
	kind string // id int str char op eof
	s    string
	pos  int
}

type exprParser struct {
	src  string
	toks []tok
	p    int
}

func lexSpec(src string) ([]tok, error) {
	var out []tok
	i := 0
	for i < len(src) {
		c := src[i]
		switch {
		case c == ' ' || c == '\t' || c == '\n' || c == '\r':
			i++
		case c == '/' && i+1 < len(src) && src[i+1] == '/':
			// comment to end of line
			for i < len(src) && src[i] != '\n' {
				i++
			}
		case c == '/' && i+1 < len(src) && src[i+1] == '*':
			j := strings.Index(src[i+2:], "*/")
			if j < 0 {
				return nil, fmt.Errorf("unterminated comment")
			}
			i += j + 4
		case unicode.IsLetter(rune(c)) || c == '_' || c == '$':
			j := i + 1
			for j < len(src) && (unicode.IsLetter(rune(src[j])) || unicode.IsDigit(rune(src[j])) || src[j] == '_' || src[j] == '$' || src[j] == '#') {
				j++
			}
			out = append(out, tok{"id", src[i:j], i})
			i = j
		case c >= '0' && c <= '9':
			j := i + 1
			for j < len(src) && (unicode.IsDigit(rune(src[j])) || src[j] == 'x' || (src[j] >= 'a' && src[j] <= 'f') || (src[j] >= 'A' && src[j] <= 'F')) {
				j++
			}
			out = append(out, tok{"int", src[i:j], i})
			i = j
		case c == '"':
			j := i + 1
			var sb strings.Builder
			for j < len(src) && src[j] != '"' {
				if src[j] == '\\' && j+1 < len(src) {
					j++
					switch src[j] {
					case 'n':
						sb.WriteByte('\n')
					case 't':
						sb.WriteByte('\t')
					case 'r':
						sb.WriteByte('\r')
					case '\\':
						sb.WriteByte('\\')
					case '"':
						sb.WriteByte('"')
					case '0':
						sb.WriteByte(0)
					default:
						return nil, fmt.Errorf("bad escape \\%c", src[j])
					}
					j++
					continue
				}
				sb.WriteByte(src[j])
				j++
			}
			if j >= len(src) {
				return nil, fmt.Errorf("unterminated string")
			}
			out = append(out, tok{"str", sb.String(), i})
			i = j + 1
		case c == '`':
			j := strings.IndexByte(src[i+1:], '`')
			if j < 0 {
				return nil, fmt.Errorf("unterminated raw string")
			}
			out = append(out, tok{"str", src[i+1 : i+1+j], i})
			i += j + 2
		case c == '\'':
			j := i + 1
			var val string
			if j < len(src) && src[j] == '\\' {
				val = src[j : j+2]
				j += 2
			} else {
				// possibly multibyte
				r := []rune(src[j:])
				val = string(r[0])
				j += len(val)
			}
			if j >= len(src) || src[j] != '\'' {
				return nil, fmt.Errorf("bad char literal at %d", i)
			}
			out = append(out, tok{"char", val, i})
			i = j + 1
		default:
			ops := []string{"<==>", "==>", "::", "==", "!=", "<=", ">=", "&&", "||", "+", "-", "*", "/", "%", "<", ">", "!", "(", ")", "[", "]", "{", "}", ",", ".", ":", "?", "="}
			matched := false
			for _, op := range ops {
				if strings.HasPrefix(src[i:], op) {
					out = append(out, tok{"op", op, i})
					i += len(op)
					matched = true
					break
				}
			}
			if !matched {
				return nil, fmt.Errorf("unexpected character %q at %d", c, i)
			}
		}
	}
	out = append(out, tok{"eof", "", len(src)})
	return out, nil
}

func parseSpecExpr(src string) (e *Expr, err error) {
	toks, err := lexSpec(src)
	if err != nil {
		return nil, err
	}
	p := &exprParser{src: src, toks: toks}
	defer func() {
		if r := recover(); r != nil {
			if pe, ok := r.(parseErr); ok {
				err = fmt.Errorf("%s in %q", string(pe), src)
				return
			}
			panic(r)
		}
	}()
	e = p.parseExpr(0)
	if p.cur().kind != "eof" {
		p.fail("trailing input at " + p.cur().s)
	}
	return e, nil
}

func parseSpecExprList(src string) (es []*Expr, err error) {
	toks, err := lexSpec(src)
	if err != nil {
		return nil, err
	}
	p := &exprParser{src: src, toks: toks}
	defer func() {
		if r := recover(); r != nil {
			if pe, ok := r.(parseErr); ok {
				err = fmt.Errorf("%s in %q", string(pe), src)
				return
			}
			panic(r)
		}
	}()
	for {
		es = append(es, p.parseExpr(0))
		if p.isOp(",") {
			p.p++
			continue
		}
		break
	}
	if p.cur().kind != "eof" {
		p.fail("trailing input at " + p.cur().s)
	}
	return es, nil
}

type parseErr string

func (p *exprParser) fail(msg string) { panic(parseErr(msg)) }
func (p *exprParser) cur() tok        { return p.toks[p.p] }
func (p *exprParser) isOp(s string) bool {
	return p.toks[p.p].kind == "op" && p.toks[p.p].s == s
}
func (p *exprParser) expectOp(s string) {
	if !p.isOp(s) {
		p.fail(fmt.Sprintf("expected %q, got %q", s, p.cur().s))
	}
	p.p++
}

var binPrec = map[string]int{
	"<==>": 1, "==>": 2, "||": 4, "&&": 5,
	"==": 6, "!=": 6, "<": 6, "<=": 6, ">": 6, ">=": 6,
	"+": 7, "-": 7, "*": 8, "/": 8, "%": 8,
}

func (p *exprParser) parseExpr(minPrec int) *Expr {
	lhs := p.parseUnary()
	for {
		t := p.cur()
		if t.kind != "op" {
			break
		}
		if t.s == "?" && minPrec <= 3 {
			p.p++
			a := p.parseExpr(0)
			p.expectOp(":")
			b := p.parseExpr(3)
			lhs = &Expr{Op: "cond", Args: []*Expr{lhs, a, b}}
			continue
		}
		prec, ok := binPrec[t.s]
		if !ok || prec < minPrec {
			break
		}
		p.p++
		var rhs *Expr
		if t.s == "==>" || t.s == "<==>" {
			rhs = p.parseExpr(prec) // right assoc
		} else {
			rhs = p.parseExpr(prec + 1)
		}
		lhs = &Expr{Op: "binary", Name: t.s, Args: []*Expr{lhs, rhs}}
	}
	return lhs
}

func (p *exprParser) parseUnary() *Expr {
	if p.isOp("!") || p.isOp("-") || p.isOp("*") {
		op := p.cur().s
		p.p++
		x := p.parseUnary()
		return &Expr{Op: "unary", Name: op, Args: []*Expr{x}}
	}
	return p.parsePostfix(p.parsePrimary())
}

func (p *exprParser) parsePostfix(x *Expr) *Expr {
	for {
		switch {
		case p.isOp("."):
			p.p++
			t := p.cur()
			if t.kind != "id" {
				p.fail("expected field name after '.'")
			}
			p.p++
			x = &Expr{Op: "select", Name: t.s, Args: []*Expr{x}}
		case p.isOp("["):
			p.p++
			var lo, hi *Expr
			if p.isOp(":") {
				p.p++
				if !p.isOp("]") {
					hi = p.parseExpr(0)
				}
				p.expectOp("]")
				x = &Expr{Op: "slice", Args: []*Expr{x, nil, hi}}
				continue
			}
			lo = p.parseExpr(0)
			if p.isOp(":") {
				p.p++
				if !p.isOp("]") {
					hi = p.parseExpr(0)
				}
				p.expectOp("]")
				x = &Expr{Op: "slice", Args: []*Expr{x, lo, hi}}
				continue
			}
			p.expectOp("]")
			x = &Expr{Op: "index", Args: []*Expr{x, lo}}
		case p.isOp("("):
			// call: x must be ident or select (pkg.Func / method-like spec call)
			name := ""
			if x.Op == "ident" {
				name = x.Name
			} else if x.Op == "select" && x.Args[0].Op == "ident" {
				name = x.Args[0].Name + "." + x.Name
			} else {
				p.fail("call of non-identifier")
			}
			p.p++
			var args []*Expr
			for !p.isOp(")") {
				args = append(args, p.parseExpr(0))
				if p.isOp(",") {
					p.p++
				} else {
					break
				}
			}
			p.expectOp(")")
			x = &Expr{Op: "call", Name: name, Args: args}
		default:
			return x
		}
	}
}

func (p *exprParser) parsePrimary() *Expr {
	t := p.cur()
	switch t.kind {
	case "int":
		p.p++
		return &Expr{Op: "int", Name: t.s}
	case "str":
		p.p++
		return &Expr{Op: "str", Name: t.s}
	case "char":
		p.p++
		return &Expr{Op: "char", Name: t.s}
	case "id":
		switch t.s {
		case "true", "false":
			p.p++
			return &Expr{Op: "bool", Name: t.s}
		case "nil":
			p.p++
			return &Expr{Op: "nil", Name: "nil"}
		case "forall", "exists":
			p.p++
			var vars []Param
			for {
				n := p.cur()
				if n.kind != "id" {
					p.fail("expected bound variable name")
				}
				p.p++
				ty := p.parseType()
				vars = append(vars, Param{n.s, ty})
				if p.isOp(",") {
					p.p++
					continue
				}
				break
			}
			p.expectOp("::")
			var trig [][]*Expr
			for p.isOp("{") {
				p.p++
				var tr []*Expr
				for !p.isOp("}") {
					tr = append(tr, p.parseExpr(0))
					if p.isOp(",") {
						p.p++
					}
				}
				p.expectOp("}")
				trig = append(trig, tr)
			}
			body := p.parseExpr(0)
			return &Expr{Op: t.s, Vars: vars, Args: []*Expr{body}, Trig: trig}
		}
		p.p++
		return &Expr{Op: "ident", Name: t.s}
	case "op":
		if t.s == "(" {
			p.p++
			e := p.parseExpr(0)
			p.expectOp(")")
			return e
		}
	}
	p.fail(fmt.Sprintf("unexpected token %q", t.s))
	return nil
}

func (p *exprParser) parseType() *TypeExpr {
	if p.isOp("*") {
		p.p++
		return &TypeExpr{Kind: "ptr", Elem: p.parseType()}
	}
	if p.isOp("[") {
		p.p++
		p.expectOp("]")
		return &TypeExpr{Kind: "slice", Elem: p.parseType()}
	}
	t := p.cur()
	if t.kind != "id" {
		p.fail("expected type")
	}
	p.p++
	switch t.s {
	case "seq", "set":
		p.expectOp("[")
		el := p.parseType()
		p.expectOp("]")
		return &TypeExpr{Kind: t.s, Elem: el}
	case "map":
		p.expectOp("[")
		k := p.parseType()
		p.expectOp("]")
		v := p.parseType()
		return &TypeExpr{Kind: "map", Key: k, Elem: v}
	}
	if t.s == "struct" && p.isOp("{") {
		p.p++
		p.expectOp("}")
		return &TypeExpr{Kind: "name", Name: "struct{}"}
	}
	if p.isOp(".") {
		p.p++
		n := p.cur()
		if n.kind != "id" {
			p.fail("expected type name after package qualifier")
		}
		p.p++
		return &TypeExpr{Kind: "name", Pkg: t.s, Name: n.s}
	}
	return &TypeExpr{Kind: "name", Name: t.s}
}

func parseTypeString(src string) (t *TypeExpr, err error) {
	toks, err := lexSpec(src)
	if err != nil {
		return nil, err
	}
	p := &exprParser{src: src, toks: toks}
	defer func() {
		if r := recover(); r != nil {
			if pe, ok := r.(parseErr); ok {
				err = fmt.Errorf("%s in type %q", string(pe), src)
				return
			}
			panic(r)
		}
	}()
	t = p.parseType()
	if p.cur().kind != "eof" {
		p.fail("trailing input in type")
	}
	return t, nil
}

// parseSignature parses "name(a T, b U) R" and returns name, params, result type (may be nil).
func parseSignature(src string) (name string, params []Param, res *TypeExpr, rest string, err error) {
	toks, err := lexSpec(src)
	if err != nil {
		return "", nil, nil, "", err
	}
	p := &exprParser{src: src, toks: toks}
	defer func() {
		if r := recover(); r != nil {
			if pe, ok := r.(parseErr); ok {
				err = fmt.Errorf("%s in signature %q", string(pe), src)
				return
			}
			panic(r)
		}
	}()
	t := p.cur()
	if t.kind != "id" {
		p.fail("expected name")
	}
	name = t.s
	p.p++
	if p.isOp("(") {
		p.p++
		for !p.isOp(")") {
			n := p.cur()
			if n.kind != "id" {
				p.fail("expected parameter name")
			}
			p.p++
			ty := p.parseType()
			params = append(params, Param{n.s, ty})
			if p.isOp(",") {
				p.p++
			}
		}
		p.expectOp(")")
	}
	c := p.cur()
	if c.kind == "id" || (c.kind == "op" && (c.s == "*" || c.s == "[")) {
		res = p.parseType()
	}
	c = p.cur()
	if c.kind == "eof" {
		return name, params, res, "", nil
	}
	return name, params, res, strings.TrimSpace(src[c.pos:]), nil
}
