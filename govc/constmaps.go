package main

// Package-level maps that are built by the package initialiser from constants and never
// written, stored or passed elsewhere are folded to their literal content.

import (
	"go/token"
	"go/types"

	"golang.org/x/tools/go/ssa"
)

type constKV struct{ k, v *ssa.Const }

func (e *Engine) findConstMaps() {
	e.constMaps = map[*ssa.Global][]constKV{}
	for _, pkg := range e.spkgs {
		init := pkg.Func("init")
		if init == nil {
			continue
		}
		cand := map[*ssa.Global]*ssa.MakeMap{}
		content := map[*ssa.MakeMap][]constKV{}
		bad := map[*ssa.MakeMap]bool{}
		for _, b := range init.Blocks {
			for _, ins := range b.Instrs {
				switch i := ins.(type) {
				case *ssa.MapUpdate:
					mm, ok := i.Map.(*ssa.MakeMap)
					if !ok {
						continue
					}
					k, ok1 := i.Key.(*ssa.Const)
					v, ok2 := i.Value.(*ssa.Const)
					if !ok1 || !ok2 {
						bad[mm] = true
						continue
					}
					content[mm] = append(content[mm], constKV{k, v})
				case *ssa.Store:
					g, ok := i.Addr.(*ssa.Global)
					if !ok {
						continue
					}
					if mm, ok := i.Val.(*ssa.MakeMap); ok {
						cand[g] = mm
					}
				}
			}
		}
		for g, mm := range cand {
			if bad[mm] {
				continue
			}
			if e.globalOnlyLookedUp(g, init) {
				e.constMaps[g] = content[mm]
			}
		}
	}
}

// globalOnlyLookedUp: outside init, the global is only loaded, and the loaded map is only used
// as the operand of a lookup / len / range.
func (e *Engine) globalOnlyLookedUp(g *ssa.Global, init *ssa.Function) bool {
	for _, fn := range e.allFns {
		if fn == init {
			continue
		}
		for _, b := range fn.Blocks {
			for _, ins := range b.Instrs {
				for _, op := range ins.Operands(nil) {
					if *op != ssa.Value(g) {
						continue
					}
					u, ok := ins.(*ssa.UnOp)
					if !ok || u.Op != token.MUL {
						return false
					}
					for _, ref := range *u.Referrers() {
						switch r := ref.(type) {
						case *ssa.Lookup:
							if r.X != ssa.Value(u) {
								return false
							}
						case *ssa.DebugRef:
						default:
							return false
						}
					}
				}
			}
		}
	}
	return true
}

// constMapLookup folds m[k] for a constant map.
func (f *Frame) constMapLookup(i *ssa.Lookup, g *ssa.Global, k Val) (Val, bool) {
	c := f.c
	kvs, ok := c.eng.constMaps[g]
	if !ok {
		return Val{}, false
	}
	m := i.X.Type().Underlying().(*types.Map)
	vs := c.eng.sortOf(m.Elem())
	val := c.eng.zero(vs)
	in := "false"
	for j := len(kvs) - 1; j >= 0; j-- {
		kc := f.constVal(kvs[j].k)
		vc := f.constVal(kvs[j].v)
		vt := vc.T
		if vt == "" {
			vt = c.eng.zero(vs)
		}
		val = "(ite (= " + k.T + " " + kc.T + ") " + vt + " " + val + ")"
		in = "(or (= " + k.T + " " + kc.T + ") " + in + ")"
	}
	v := Val{T: c.name(val, vs, "cm"), S: vs, GT: m.Elem()}
	if i.CommaOk {
		return Val{Tup: []Val{v, tv(in, "Bool")}}, true
	}
	return v, true
}
