package main

import (
	"encoding/json"
	"regexp"
	"fmt"
	"os"
	"path/filepath"
	"sort"
	"strconv"
	"strings"
	"time"
)

var obSuffixRe = regexp.MustCompile(`(@ret\d+|@path\d+|#\d+|inl:[^/]*/)`)

type Baseline struct {
	// property -> obligation name -> "unsat" | "undecided"
	Props map[string]map[string]string `json:"properties"`
}

type KnownFinding struct {
	Property   string `json:"property"`
	ID         string `json:"id"`
	Obligation string `json:"obligation,omitempty"`
	CarveOut   string `json:"carve_out,omitempty"`
	Witness    string `json:"witness,omitempty"`
	Harness    string `json:"harness,omitempty"` // name of the witness test in /verif/harness
	What       string `json:"what_fails"`
	Status     string `json:"status"` // open | fixed
	Commit     string `json:"commit,omitempty"`
}

func loadBaseline(verif string) *Baseline {
	b := &Baseline{Props: map[string]map[string]string{}}
	data, err := os.ReadFile(filepath.Join(verif, "obligations.baseline.json"))
	if err == nil {
		json.Unmarshal(data, b)
	}
	if b.Props == nil {
		b.Props = map[string]map[string]string{}
	}
	return b
}

func loadKnown(verif string) []KnownFinding {
	var ks []KnownFinding
	data, err := os.ReadFile(filepath.Join(verif, "known_findings.json"))
	if err == nil {
		var wrap struct {
			Findings []KnownFinding `json:"findings"`
		}
		if json.Unmarshal(data, &wrap) == nil {
			ks = wrap.Findings
		}
	}
	return ks
}

type propRun struct {
	prop    string
	ctxs    []*Ctx
	obs     []*Obligation
	funcs   []string
	unboundContracts []string
	engineErrs []string
	external map[string]bool
	axioms   map[string]bool
	trusted  []string
}

// obligationsFor generates the obligations that decide a property.
func (e *Engine) obligationsFor(prop string) *propRun {
	pr := &propRun{prop: prop, external: map[string]bool{}, axioms: map[string]bool{}}
	var keys []string
	for k := range e.cs.Funcs {
		keys = append(keys, k)
	}
	sort.Strings(keys)
	// the functions that decide a property: those carrying a clause labelled with it, and the functions under
	// contract they call directly (the caller's proof of the property rests on the callee's contract, so a change
	// inside such a callee that breaks its contract breaks the property's proof as well)
	selected := map[string]bool{}
	for _, k := range keys {
		if e.cs.Funcs[k].propsOf()[prop] {
			selected[k] = true
		}
	}
	for _, k := range keys {
		if !e.cs.Funcs[k].propsOf()[prop] || e.funcs[k] == nil {
			continue
		}
		for _, ck := range e.contractCallees(e.funcs[k]) {
			if cfc := e.cs.Funcs[ck]; cfc != nil && !cfc.Trusted && !cfc.NoBody && e.funcs[ck] != nil {
				selected[ck] = true
			}
		}
	}
	for _, k := range keys {
		fc := e.cs.Funcs[k]
		if !selected[k] {
			continue
		}
		if fc.Trusted || fc.NoBody {
			pr.trusted = append(pr.trusted, k)
			continue
		}
		fn := e.funcs[k]
		if fn == nil {
			pr.unboundContracts = append(pr.unboundContracts, k)
			continue
		}
		c := e.verifyFunction(fn, fc)
		pr.ctxs = append(pr.ctxs, c)
		pr.funcs = append(pr.funcs, k)
		for _, er := range c.errs {
			pr.engineErrs = append(pr.engineErrs, k+": "+er)
		}
		for x := range c.external {
			pr.external[x] = true
		}
		for x := range c.usedAxioms {
			pr.axioms[x] = true
		}
		// every obligation of a function that carries the property counts: clauses filed under other properties
		// (loop invariants, preconditions of callees) are assumed while the property's own clauses are proved, so a
		// proof of the property in this function stands only if all of them are discharged
		pr.obs = append(pr.obs, c.obs...)
	}
	return pr
}

func contains(xs []string, x string) bool {
	for _, y := range xs {
		if y == x {
			return true
		}
	}
	return false
}

func tierTimeout(tier string, override int) int {
	if override > 0 {
		return override
	}
	if tier == "thorough" {
		return 90
	}
	return 30
}

func cmdCheck(repo, verif, prop, tier string, timeout int, verbose bool) int {
	t0 := time.Now()
	seed := 0
	if s := os.Getenv("VERIF_SEED"); s != "" {
		seed, _ = strconv.Atoi(s)
	}
	if t := os.Getenv("VERIF_TIER"); t != "" && tier == "" {
		tier = t
	}
	if tier == "" {
		tier = "quick"
	}
	e, err := loadEngine(repo, verif+"/spec")
	if err != nil {
		fmt.Printf("govc: cannot load %s: %v\n", repo, err)
		return 2
	}
	pr := e.obligationsFor(prop)
	base := loadBaseline(verif)
	known := loadKnown(verif)
	dir := scratchDir()
	defer os.RemoveAll(dir)
	solveAll(e, pr.ctxs, pr.obs, solveOpts{timeout: tierTimeout(tier, timeout), dir: dir, models: true, all: tier == "thorough"})

	var scans []scanResult
	if prop == "C17" {
		scans = e.scanDeterminism()
	}
	if prop == "C18" {
		scans = append(scans, scanVariants(verif, pr))
		scans = append(scans, scanRecursion(pr))
	}
	if prop == "C01" || prop == "C02" || prop == "C03" || prop == "C04" || prop == "C05" || prop == "C11" {
		scans = append(scans, e.scanAstImmutable())
	}
	bp := base.Props[prop]
	var violations []*Obligation
	var undecided, unbound []string
	claimed, discharged := 0, 0
	bySolver := map[string]int{}
	solverTime := 0.0
	seen := map[string]bool{}
	for _, ob := range pr.obs {
		seen[ob.Name] = true
		solverTime += ob.TimeS
		if ob.Kind == "rec-progress" {
			// optional: a recursive call made before anything is consumed is allowed; what is checked is that such
			// calls form no cycle (scan[C18:recursion])
			if ob.ok() {
				claimed++
				discharged++
				bySolver[ob.Solver]++
			}
			continue
		}
		if ob.Expect == "sat" {
			// vacuity guard
			if !ob.ok() {
				violations = append(violations, ob)
			}
			continue
		}
		if ob.ok() {
			claimed++
			discharged++
			bySolver[ob.Solver]++
			continue
		}
		if bp != nil && bp[ob.Name] == "undecided" {
			undecided = append(undecided, ob.Name)
			continue
		}
		claimed++
		if ob.Result == "unbound" {
			unbound = append(unbound, ob.Name)
		}
		violations = append(violations, ob)
	}
	var scanViol []scanResult
	for _, sr := range scans {
		claimed++
		if sr.OK {
			discharged++
			bySolver["scan"]++
		} else {
			scanViol = append(scanViol, sr)
		}
	}
	// labelled obligations that were discharged on the pinned tree but are no longer generated
	// (compared modulo the @retN / #N suffixes, which only number returns, call sites and back edges)
	norm := func(n string) string { return obSuffixRe.ReplaceAllString(n, "") }
	seenNorm := map[string]bool{}
	for n := range seen {
		seenNorm[norm(n)] = true
	}
	var missing []string
	missNorm := map[string]bool{}
	for name, st := range bp {
		if st == "unsat" && !seen[name] && strings.Contains(name, "[C") && !seenNorm[norm(name)] && !missNorm[norm(name)] {
			missNorm[norm(name)] = true
			missing = append(missing, norm(name))
		}
	}
	sort.Strings(missing)
	for _, k := range pr.unboundContracts {
		missing = append(missing, k+"/contract (function not found)")
	}

	// known findings of this property: re-run witnesses
	kfLines, kfNew := runKnownFindings(repo, verif, prop, known, tier)

	boundedSummary, boundedFailing := runBounded(repo, verif, prop, tier)
	var mutants, mustPass []mutantResult
	if tier == "thorough" && os.Getenv("GOVC_MUTANT") == "" {
		mutants = runMutants(repo, verif, prop, timeout)
		for _, m := range mutants {
			if m.Detected {
				fmt.Printf("govc: must-fail %s: reported by %s\n", m.Seed, strings.Join(m.By, ", "))
			} else {
				fmt.Printf("govc: must-fail %s: NOT DETECTED %s\n", m.Seed, m.Note)
			}
		}
		mustPass = runMustPass(repo, verif, prop, timeout)
		for _, m := range mustPass {
			if m.Detected {
				fmt.Printf("govc: must-pass %s (behaviour-preserving refactoring): REPORTED by %s\n", m.Seed, strings.Join(m.By, ", "))
			} else {
				fmt.Printf("govc: must-pass %s (behaviour-preserving refactoring): not reported, as it should be\n", m.Seed)
			}
		}
	}
	wall := time.Since(t0).Seconds()
	// report
	os.MkdirAll(filepath.Join(verif, "replays", prop), 0o755)
	nviol := 0
	// the search for a concrete failing input is run once per check (it explores the same inputs whichever
	// obligation failed) and not at all when the check runs on a must-fail mutant
	searched, sConfirmed, sDetail := false, false, ""
	for _, ob := range violations {
		nviol++
		path := writeReplay(verif, prop, ob, pr)
		confirmed, detail := false, ""
		if os.Getenv("GOVC_MUTANT") == "" {
			if !searched {
				sConfirmed, sDetail = tryReplay(repo, verif, prop, ob, path)
				searched = true
			} else {
				noteReplay(path, sConfirmed, sDetail)
			}
			confirmed, detail = sConfirmed, sDetail
		}
		suffix := ""
		if !confirmed {
			suffix = " no-failing-input-found"
		}
		fmt.Printf("VIOLATION property=%s replay=%s obligation=%s result=%s%s\n", prop, path, ob.Name, ob.Result, suffix)
		if verbose && detail != "" {
			fmt.Println("  " + detail)
		}
	}
	for _, m := range missing {
		nviol++
		path := filepath.Join(verif, "replays", prop, slug("UNBOUND_"+m)+".json")
		data, _ := json.MarshalIndent(map[string]interface{}{"property": prop, "obligation": m, "status": "UNBOUND",
			"explanation": "a contract clause that was discharged on the pinned tree no longer binds to the code (function, loop or local renamed/removed); the property is undecided by proof"}, "", " ")
		os.WriteFile(path, data, 0o644)
		fmt.Printf("VIOLATION property=%s replay=%s obligation=%s result=unbound no-failing-input-found\n", prop, path, m)
	}
	for _, sr := range scanViol {
		nviol++
		path := filepath.Join(verif, "replays", prop, slug(sr.Name)+".json")
		data, _ := json.MarshalIndent(map[string]interface{}{"property": prop, "obligation": sr.Name, "detail": sr.Detail}, "", " ")
		os.WriteFile(path, data, 0o644)
		fmt.Printf("VIOLATION property=%s replay=%s obligation=%s result=scan-failed no-failing-input-found\n", prop, path, sr.Name)
	}
	for k, bf := range boundedFailing {
		nviol++
		path := filepath.Join(verif, "replays", prop, fmt.Sprintf("bounded_%d.json", k+1))
		data, _ := json.MarshalIndent(map[string]interface{}{"property": prop, "kind": "bounded stand-in (not a proof obligation)", "failing_input": bf}, "", " ")
		os.WriteFile(path, data, 0o644)
		fmt.Printf("VIOLATION property=%s replay=%s bounded-stand-in %s\n", prop, path, trunc(bf, 300))
		if k >= 4 {
			break
		}
	}
	for _, l := range kfNew {
		nviol++
		fmt.Println(l)
	}
	for _, l := range kfLines {
		fmt.Println(l)
	}
	for _, er := range pr.engineErrs {
		fmt.Println("govc: engine: " + er)
	}
	writeEvidence(e, verif, pr, tier, seed, claimed, discharged, undecided, unbound, missing, bySolver, solverTime, wall, nviol, kfLines, boundedSummary, mutants, mustPass)
	fmt.Printf("property %s: %d functions under contract, %d obligations claimed, %d discharged, %d undecided (not claimed), %d violations, %.1fs\n",
		prop, len(pr.funcs), claimed, discharged, len(undecided), nviol, wall)
	if nviol > 0 {
		return 1
	}
	return 0
}

func writeReplay(verif, prop string, ob *Obligation, pr *propRun) string {
	path := filepath.Join(verif, "replays", prop, slug(ob.Name)+".json")
	q := ""
	if ob.File != "" {
		if b, err := os.ReadFile(ob.File); err == nil {
			q = string(b)
		}
	}
	rec := map[string]interface{}{
		"property":   prop,
		"obligation": ob.Name,
		"function":   ob.Func,
		"kind":       ob.Kind,
		"clause":     ob.Clause,
		"contract_at": ob.Where,
		"result":     ob.Result,
		"expected":   ob.Expect,
		"solvers":    ob.Raw,
		"model":      trunc(ob.Model, 20000),
		"model_is_candidate_from_ground_weakening": ob.Candidate,
		"smt2":       trunc(q, 400000),
	}
	data, _ := json.MarshalIndent(rec, "", " ")
	os.WriteFile(path, data, 0o644)
	return path
}

func writeEvidence(e *Engine, verif string, pr *propRun, tier string, seed, claimed, discharged int, undecided, unbound, missing []string, bySolver map[string]int, solverTime, wall float64, nviol int, kf []string, bounded []string, mutants []mutantResult, mustPass []mutantResult) {
	var samples []map[string]string
	for _, ob := range pr.obs {
		if len(samples) >= 6 {
			break
		}
		if ob.Label != "" && ob.ok() && ob.Expect == "unsat" {
			samples = append(samples, map[string]string{"obligation": ob.Name, "clause": ob.Clause, "solver": ob.Solver, "result": ob.Result})
		}
	}
	if len(samples) == 0 {
		for _, ob := range pr.obs {
			if len(samples) >= 3 {
				break
			}
			samples = append(samples, map[string]string{"obligation": ob.Name, "result": ob.Result})
		}
	}
	var ext []string
	for x := range pr.external {
		ext = append(ext, x)
	}
	sort.Strings(ext)
	var axs []string
	for x := range pr.axioms {
		axs = append(axs, x)
	}
	sort.Strings(axs)
	trusted := []string{
		"go/packages + go/types + go/ssa (x/tools v0.29.0) build the verified SSA from the working tree",
		"govc translation (symbolic execution, loop cutting, call-by-contract) as described in DESIGN.md section 3",
		"SMT solvers z3 5.1.0 (z3-new), z3 4.8.12, cvc5 1.0.x: an obligation counts only on 'unsat'",
	}
	for _, t := range pr.trusted {
		trusted = append(trusted, "trusted contract (body not checked): "+t)
	}
	assumptions := []string{
		"A-int: Go integers are treated as mathematical integers (no overflow)",
		"A-slice: slices have value semantics (no aliasing through shared backing arrays); capacity is not modelled",
		"A-lib: library functions are replaced by the models of DESIGN.md 3.5 (fmt.Sprintf as an uninterpreted function per format literal, strings.Builder as a piece sequence with a separate marker channel, strings/unicode/utf8/strconv as uninterpreted vocabulary with the listed axioms)",
		"A-bstr: builder outputs are compared as piece sequences (piecesOf(bstr2(p,m)) == p), which is finer than byte equality",
		"typing: every reference read from memory is nil or an allocated object of its static type",
	}
	for _, x := range ext {
		assumptions = append(assumptions, "external function assumed to have no effect on the modelled heap, arbitrary result: "+x)
	}
	for _, x := range axs {
		assumptions = append(assumptions, "axiom instantiated (not proved): "+x)
	}
	for _, a := range e.propAssumptions(pr.prop) {
		assumptions = append(assumptions, a)
	}
	ev := map[string]interface{}{
		"property_id": pr.prop,
		"tier":        tier,
		"seed":        seed,
		"level":       "proof",
		"coverage": map[string]interface{}{
			"obligations":              claimed,
			"discharged":               discharged,
			"checker_cmd":              "/verif/bin/govc check -property " + pr.prop + " -tier " + tier,
			"trusted_base":             trusted,
			"samples":                  samples,
			"functions_under_contract": pr.funcs,
			"by_solver":                bySolver,
			"solver_time_s":            solverTime,
			"slowest_obligations":      slowest(pr.obs, 8),
			"undecided_not_claimed":    undecided,
			"unbound":                  append(unbound, missing...),
			"known_findings_reported":  kf,
			"bounded_stand_ins":        bounded,
			"must_fail_mutants":        mutants,
			"must_pass_refactorings":   mustPass,
			"second_opinions":          secondOpinions(pr),
			"contract_files":           e.cs.Files,
			"explanation":              "obligations generated by weakest-precondition style symbolic execution of go/ssa of the real code against //@ contracts; each is an SMT query discharged only on unsat",
		},
		"assumptions": assumptions,
		"wall_s":      wall,
		"violations":  nviol,
	}
	os.MkdirAll(filepath.Join(verif, "evidence"), 0o755)
	data, _ := json.MarshalIndent(ev, "", " ")
	os.WriteFile(filepath.Join(verif, "evidence", pr.prop+".json"), data, 0o644)
}

// propAssumptions: per-property paper lemmas / assumptions (DESIGN.md section 9), read from spec/assumptions.json
func (e *Engine) propAssumptions(prop string) []string {
	data, err := os.ReadFile(filepath.Join(filepath.Dir(e.specDir), "spec", "assumptions.json"))
	if err != nil {
		return nil
	}
	var m map[string][]string
	if json.Unmarshal(data, &m) != nil {
		return nil
	}
	return append(m["*"], m[prop]...)
}

func cmdBaseline(repo, verif string, timeout int) int {
	e, err := loadEngine(repo, verif+"/spec")
	if err != nil {
		fmt.Println("load:", err)
		return 2
	}
	props := map[string]bool{}
	for _, fc := range e.cs.Funcs {
		for p := range fc.propsOf() {
			props[p] = true
		}
	}
	var ps []string
	for p := range props {
		ps = append(ps, p)
	}
	sort.Strings(ps)
	b := &Baseline{Props: map[string]map[string]string{}}
	bad := 0
	for _, p := range ps {
		// a fresh engine per property, as in a check: verifying a function completes contract data (parameters of
		// implemented interface methods) that the selection of a later property would otherwise see
		if e2, err := loadEngine(repo, verif+"/spec"); err == nil {
			e = e2
		}
		pr := e.obligationsFor(p)
		dir := scratchDir()
		solveAll(e, pr.ctxs, pr.obs, solveOpts{timeout: tierTimeout("quick", timeout), dir: dir})
		os.RemoveAll(dir)
		m := map[string]string{}
		for _, ob := range pr.obs {
			if ob.Expect == "sat" {
				continue
			}
			if ob.ok() {
				m[ob.Name] = "unsat"
			} else {
				m[ob.Name] = "undecided"
				bad++
				fmt.Printf("UNDECIDED %s %s (%s)\n", p, ob.Name, ob.Result)
			}
		}
		b.Props[p] = m
		fmt.Printf("%s: %d obligations\n", p, len(m))
	}
	data, _ := json.MarshalIndent(b, "", " ")
	os.WriteFile(filepath.Join(verif, "obligations.baseline.json"), data, 0o644)
	writeNamesBaseline(e, verif)
	fmt.Printf("baseline written, %d undecided\n", bad)
	return 0
}

// scanVariants: every loop of a function under contract that does not range over a slice, string or map has a variant
// (decreases / loopdecr), except the loops listed in spec/novariant.json, whose termination is not proved and is
// stated as such in the evidence. A new loop without a variant is reported.
func scanVariants(verif string, pr *propRun) scanResult {
	allowed := map[string]bool{}
	if data, err := os.ReadFile(filepath.Join(verif, "spec", "novariant.json")); err == nil {
		var l []string
		if json.Unmarshal(data, &l) == nil {
			for _, x := range l {
				allowed[x] = true
			}
		}
	}
	var bad, listed []string
	seen := map[string]bool{}
	for _, c := range pr.ctxs {
		for _, n := range c.noVariant {
			if seen[n] {
				continue
			}
			seen[n] = true
			if allowed[n] {
				listed = append(listed, n)
			} else {
				bad = append(bad, n)
			}
		}
	}
	sort.Strings(bad)
	sort.Strings(listed)
	return scanResult{"scan[C18:variants]", len(bad) == 0, fmt.Sprintf("loops without a variant: %v; listed as not proved to terminate (spec/novariant.json): %v", bad, listed)}
}

// secondOpinions: thorough tier only - how many discharged obligations were also decided the same way by one or two
// of the other solvers within their short time limit.
func secondOpinions(pr *propRun) map[string]int {
	m := map[string]int{"agreed_by_one_more_solver": 0, "agreed_by_two_more_solvers": 0}
	for _, ob := range pr.obs {
		switch ob.Agree {
		case 1:
			m["agreed_by_one_more_solver"]++
		case 2:
			m["agreed_by_two_more_solvers"]++
		}
	}
	return m
}


// slowest lists the n discharged obligations that took the solvers longest (evidence: how far the run was from its
// time limit).
func slowest(obs []*Obligation, n int) []map[string]interface{} {
	var xs []*Obligation
	for _, ob := range obs {
		if ob.ok() && ob.Expect == "unsat" {
			xs = append(xs, ob)
		}
	}
	sort.Slice(xs, func(i, j int) bool {
		if xs[i].TimeS != xs[j].TimeS {
			return xs[i].TimeS > xs[j].TimeS
		}
		return xs[i].Name < xs[j].Name
	})
	if len(xs) > n {
		xs = xs[:n]
	}
	out := []map[string]interface{}{}
	for _, ob := range xs {
		out = append(out, map[string]interface{}{"obligation": ob.Name, "solver": ob.Solver, "time_s": float64(int(ob.TimeS*100)) / 100})
	}
	return out
}
