package main

import (
	"fmt"
	"sync"
	"go/types"
	"sort"
	"strings"

	"golang.org/x/tools/go/ssa"
)

// ---------- values ----------

type FnRef struct {
	Fn       *ssa.Function
	Bindings []Val
}

type pathStep struct {
	DT  *DType
	Idx int
}

const (
	aLocal = iota
	aHeapField
	aBox
	aSliceElem
	aArrCell
	aHeapObj // pointer to a whole struct object on the heap (ref)
)

type Addr struct {
	Kind  int
	Cell  *ssa.Alloc
	Path  []pathStep
	Base  string // ref term
	Key   string // heap key
	Sort  string // sort of the root location content
	Slice *Val
	Idx   string
	ArrI  int
	Named *types.Named // for aHeapObj
}

type Val struct {
	T      string
	S      string
	A      *Addr
	Tup    []Val
	Arr    []Val
	IsArr  bool
	Fn     *FnRef
	Origin *Addr
	GT     types.Type
	FnK    string // contract key of a function-typed parameter this value was loaded from
}

func tv(t, s string) Val { return Val{T: t, S: s} }

// ---------- symbolic state ----------

type State struct {
	cells   map[*ssa.Alloc]Val
	heap    map[string]string
	iters   map[ssa.Value]Val
	ghosts  map[string]string
	nextRef string
}

func (s *State) clone() *State {
	n := &State{cells: make(map[*ssa.Alloc]Val, len(s.cells)), heap: make(map[string]string, len(s.heap)),
		iters: make(map[ssa.Value]Val, len(s.iters)), ghosts: make(map[string]string, len(s.ghosts)), nextRef: s.nextRef}
	for k, v := range s.cells {
		n.cells[k] = v
	}
	for k, v := range s.heap {
		n.heap[k] = v
	}
	for k, v := range s.iters {
		n.iters[k] = v
	}
	for k, v := range s.ghosts {
		n.ghosts[k] = v
	}
	return n
}

// ---------- per-function verification context ----------

type Obligation struct {
	Name    string
	Func    string
	Kind    string
	Props   []string
	Label   string
	Clause  string
	Where   string
	NDecl   int
	NFact   int
	Reach   string
	Goal    string
	Ctx     *Ctx
	Expect  string // "unsat" (default) or "sat" for cover/canary
	Result  string
	Solver  string
	TimeS   float64
	Model   string
	Raw     map[string]string
	Inputs  []string // terms whose values are requested from the model
	Needs   []string
	// path-split obligations: the blocks on the chosen path below its last join, and that join's source block;
	// facts established in a block that is neither on the path nor able to reach the tail are left out
	PathBlocks map[*ssa.BasicBlock]bool
	PathTail   *ssa.BasicBlock
	Blk     *ssa.BasicBlock
	File    string
	Candidate bool // model comes from the ground (quantifier-free) weakening
	Agree     int    // thorough tier: how many further solvers returned the same answer
	RecCallee string // for rec-progress obligations: contract key of the callee
	Extra     []pendFact // instances of recorded hypotheses at the goal's skolem constants
}

type Ctx struct {
	eng   *Engine
	fn    *ssa.Function
	fc    *FuncContract
	key   string
	decls []string
	dset  map[string]bool
	facts []string
	ftags []string
	fblks []*ssa.BasicBlock
	nunroll int // turns of unrolled loops executed so far (suffix of reach constants)
	inlinedLoopOrdinals map[int]bool // loop sections of the contract bound to loops of inlined callees
	curTag string
	noVariant []string // non-range loops without a variant
	recEdges  [][2]string
	pend   []pendFact // hypothesis instances produced while building the current goal
	curBlk *ssa.BasicBlock
	reachCache map[[2]*ssa.BasicBlock]bool
	reachMu sync.Mutex
	obs   []*Obligation
	nfresh int
	names map[string]int // obligation name de-duplication
	seenGoal map[string]bool
	nframes int
	errs  []string
	inputs []string
	skolems int
	usedAxioms map[string]bool
	external map[string]bool
	qhyps []qhyp
	nonNil map[string]bool
	skTuples [][]SVal
	inlining map[*ssa.Function]int
}

func (e *Engine) newCtx(fn *ssa.Function, fc *FuncContract) *Ctx {
	return &Ctx{eng: e, fn: fn, fc: fc, key: e.keyOf[fn], dset: map[string]bool{}, names: map[string]int{}, seenGoal: map[string]bool{}, usedAxioms: map[string]bool{}}
}

func (c *Ctx) declare(name, sort string) string {
	if !c.dset[name] {
		c.dset[name] = true
		c.decls = append(c.decls, fmt.Sprintf("(declare-const %s %s)", name, sort))
	}
	return name
}

func (c *Ctx) fresh(prefix, sort string) string {
	c.nfresh++
	prefix = strings.Map(func(r rune) rune {
		if (r >= 'a' && r <= 'z') || (r >= 'A' && r <= 'Z') || (r >= '0' && r <= '9') || r == '_' || r == '.' {
			return r
		}
		return '_'
	}, prefix)
	return c.declare(fmt.Sprintf("%s!%d", prefix, c.nfresh), sort)
}

func (c *Ctx) fact(f string) {
	if f == "true" || f == "" {
		return
	}
	c.facts = append(c.facts, f)
	c.ftags = append(c.ftags, c.curTag)
	c.fblks = append(c.fblks, c.curBlk)
}

// blockReaches: can control flow from a to b along forward edges (a == b counts)?
func (c *Ctx) blockReaches(a, b *ssa.BasicBlock) bool {
	if a == b {
		return true
	}
	c.reachMu.Lock()
	defer c.reachMu.Unlock()
	if c.reachCache == nil {
		c.reachCache = map[[2]*ssa.BasicBlock]bool{}
	}
	key := [2]*ssa.BasicBlock{a, b}
	if v, ok := c.reachCache[key]; ok {
		return v
	}
	seen := map[*ssa.BasicBlock]bool{a: true}
	stack := []*ssa.BasicBlock{a}
	found := false
	for len(stack) > 0 && !found {
		x := stack[len(stack)-1]
		stack = stack[:len(stack)-1]
		for _, s := range x.Succs {
			if s.Dominates(x) {
				continue // back edge
			}
			if s == b {
				found = true
				break
			}
			if !seen[s] {
				seen[s] = true
				stack = append(stack, s)
			}
		}
	}
	c.reachCache[key] = found
	return found
}

// guarded fact
func (c *Ctx) assume(reach, f string) {
	if f == "true" || f == "" {
		return
	}
	if reach == "true" {
		c.fact(f)
	} else {
		c.fact("(=> " + reach + " " + f + ")")
	}
}

// name gives a big term a short name.
func (c *Ctx) name(t, sort, hint string) string {
	if len(t) < 160 {
		return t
	}
	n := c.fresh(hint, sort)
	c.fact("(= " + n + " " + t + ")")
	return n
}

func (c *Ctx) errorf(format string, a ...interface{}) {
	c.errs = append(c.errs, fmt.Sprintf(format, a...))
}

// heap term of a key in a state (entry constant when untouched)
func (c *Ctx) heapTerm(st *State, key string) string {
	if t, ok := st.heap[key]; ok {
		return t
	}
	srt, ok := c.eng.heapSort[key]
	if !ok {
		panic("unknown heap key " + key)
	}
	return c.declare(key+"!0", "(Array Int "+srt+")")
}

func (c *Ctx) ghostTerm(st *State, name string) string {
	if t, ok := st.ghosts[name]; ok {
		return t
	}
	g := c.eng.cs.Ghosts[name]
	s, _ := c.eng.resolveType(g.Pkg, g.Type)
	return c.declare("G."+name+"!0", s)
}

func (c *Ctx) nextRef(st *State) string {
	if st.nextRef != "" {
		return st.nextRef
	}
	n := c.declare("nextRef!0", "Int")
	return n
}

// ---------- datatype helpers ----------

func (c *Ctx) project(t string, path []pathStep) string {
	for _, p := range path {
		t = "(" + p.DT.Fields[p.Idx].Acc + " " + t + ")"
	}
	return t
}

func (c *Ctx) update(t string, path []pathStep, nv string) string {
	if len(path) == 0 {
		return nv
	}
	p := path[0]
	var parts []string
	for i, f := range p.DT.Fields {
		sub := "(" + f.Acc + " " + t + ")"
		if i == p.Idx {
			parts = append(parts, c.update(sub, path[1:], nv))
		} else {
			parts = append(parts, sub)
		}
	}
	return "(" + p.DT.Ctor + " " + strings.Join(parts, " ") + ")"
}

func (c *Ctx) pathSort(root string, path []pathStep) string {
	s := root
	for _, p := range path {
		s = p.DT.Fields[p.Idx].Sort
	}
	return s
}

// slice helpers
func (c *Ctx) slArr(s Val) string { return "(" + s.S + "..arr " + s.T + ")" }
func (c *Ctx) slOff(s Val) string { return "0" }
func (c *Ctx) slLen(s Val) string { return "(" + s.S + "..len " + s.T + ")" }
// slices carry no offset: re-slicing with a non-zero low bound shifts the array (axiomatised per sort)
func (c *Ctx) mkSlice(sort, arr, off, ln string) string {
	if off != "0" {
		arr = "(shift." + sort + " " + arr + " " + off + ")"
	}
	return "(mk." + sort + " " + arr + " " + ln + ")"
}
func plus(a, b string) string {
	if a == "0" {
		return b
	}
	if b == "0" {
		return a
	}
	return "(+ " + a + " " + b + ")"
}

// ---------- loads and stores ----------

func (c *Ctx) assembleStruct(st *State, ref string, n *types.Named) Val {
	s := n.Underlying().(*types.Struct)
	sortName := c.eng.sortOf(n)
	dt := c.eng.dtypes[sortName]
	var parts []string
	for i := 0; i < s.NumFields(); i++ {
		k := c.eng.heapKeyField(n, s.Field(i).Name(), dt.Fields[i].Sort)
		parts = append(parts, "(select "+c.heapTerm(st, k)+" "+ref+")")
	}
	return Val{T: "(" + dt.Ctor + " " + strings.Join(parts, " ") + ")", S: sortName, GT: n}
}

func (c *Ctx) load(st *State, a *Addr) Val {
	switch a.Kind {
	case aLocal:
		v, ok := st.cells[a.Cell]
		if !ok {
			c.errorf("load of uninitialised cell %s", a.Cell.Name())
			return tv("0", "Int")
		}
		if len(a.Path) == 0 {
			if v.T != "" && isSliceSort(v.S) {
				v.Origin = a
			}
			return v
		}
		r := Val{T: c.project(v.T, a.Path), S: c.pathSort(v.S, a.Path)}
		if isSliceSort(r.S) {
			r.Origin = a
		}
		return r
	case aHeapField, aBox:
		t := "(select " + c.heapTerm(st, a.Key) + " " + a.Base + ")"
		r := Val{T: c.project(t, a.Path), S: c.pathSort(a.Sort, a.Path)}
		if isSliceSort(r.S) {
			r.Origin = a
		}
		return r
	case aSliceElem:
		es := c.eng.sliceElemSort(a.Slice.S)
		t := "(select " + c.slArr(*a.Slice) + " " + plus(c.slOff(*a.Slice), a.Idx) + ")"
		return Val{T: c.project(t, a.Path), S: c.pathSort(es, a.Path)}
	case aArrCell:
		v := st.cells[a.Cell]
		if a.ArrI < len(v.Arr) {
			return v.Arr[a.ArrI]
		}
		c.errorf("array cell index out of range")
		return tv("0", "Int")
	case aHeapObj:
		v := c.assembleStruct(st, a.Base, a.Named)
		if len(a.Path) > 0 {
			return Val{T: c.project(v.T, a.Path), S: c.pathSort(v.S, a.Path)}
		}
		return v
	}
	panic("load: bad addr")
}

func (c *Ctx) store(st *State, a *Addr, v Val) {
	switch a.Kind {
	case aLocal:
		if len(a.Path) == 0 {
			v.Origin = nil
			st.cells[a.Cell] = v
			return
		}
		old := st.cells[a.Cell]
		nv := old
		nv.T = c.name(c.update(old.T, a.Path, v.T), old.S, "upd")
		st.cells[a.Cell] = nv
	case aHeapField, aBox:
		h := c.heapTerm(st, a.Key)
		nv := v.T
		if len(a.Path) > 0 {
			nv = c.update("(select "+h+" "+a.Base+")", a.Path, v.T)
		}
		st.heap[a.Key] = c.name("(store "+h+" "+a.Base+" "+nv+")", "(Array Int "+a.Sort+")", "h")
	case aSliceElem:
		sl := *a.Slice
		idx := plus(c.slOff(sl), a.Idx)
		nv := v.T
		if len(a.Path) > 0 {
			nv = c.update("(select "+c.slArr(sl)+" "+idx+")", a.Path, v.T)
		}
		ns := Val{T: c.mkSlice(sl.S, "(store "+c.slArr(sl)+" "+idx+" "+nv+")", c.slOff(sl), c.slLen(sl)), S: sl.S}
		if sl.Origin == nil {
			c.errorf("element store through a slice without a tracked origin (A-slice)")
			return
		}
		c.store(st, sl.Origin, ns)
	case aArrCell:
		old := st.cells[a.Cell]
		arr := append([]Val(nil), old.Arr...)
		for len(arr) <= a.ArrI {
			arr = append(arr, Val{})
		}
		arr[a.ArrI] = v
		old.Arr = arr
		st.cells[a.Cell] = old
	case aHeapObj:
		if len(a.Path) > 0 {
			c.errorf("store into nested path of heap object not supported")
			return
		}
		s := a.Named.Underlying().(*types.Struct)
		dt := c.eng.dtypes[c.eng.sortOf(a.Named)]
		for i := 0; i < s.NumFields(); i++ {
			k := c.eng.heapKeyField(a.Named, s.Field(i).Name(), dt.Fields[i].Sort)
			h := c.heapTerm(st, k)
			st.heap[k] = c.name("(store "+h+" "+a.Base+" ("+dt.Fields[i].Acc+" "+v.T+"))", "(Array Int "+dt.Fields[i].Sort+")", "h")
		}
	}
}

// newObject allocates a fresh reference.
func (c *Ctx) newObject(st *State, reach string, hint string) string {
	r := c.fresh("ref."+hint, "Int")
	nr := c.nextRef(st)
	c.assume(reach, "(= "+r+" "+nr+")")
	st.nextRef = "(+ " + r + " 1)"
	return r
}

// zero-initialise a heap struct
func (c *Ctx) zeroStruct(st *State, ref string, n *types.Named) {
	if n.Obj().Pkg() != nil && n.Obj().Pkg().Path() == "strings" && n.Obj().Name() == "Builder" {
		c.eng.builderKeys()
		st.heap["H.strings.Builder.pieces"] = "(store " + c.heapTerm(st, "H.strings.Builder.pieces") + " " + ref + " " + c.eng.zero("Sl.Str") + ")"
		st.heap["H.strings.Builder.markers"] = "(store " + c.heapTerm(st, "H.strings.Builder.markers") + " " + ref + " " + c.eng.zero("Sl.Str") + ")"
		st.heap["H.strings.Builder.nbytes"] = "(store " + c.heapTerm(st, "H.strings.Builder.nbytes") + " " + ref + " 0)"
		return
	}
	s, ok := n.Underlying().(*types.Struct)
	if !ok {
		return
	}
	dt := c.eng.dtypes[c.eng.sortOf(n)]
	for i := 0; i < s.NumFields(); i++ {
		k := c.eng.heapKeyField(n, s.Field(i).Name(), dt.Fields[i].Sort)
		st.heap[k] = c.name("(store "+c.heapTerm(st, k)+" "+ref+" "+c.eng.zero(dt.Fields[i].Sort)+")", "(Array Int "+dt.Fields[i].Sort+")", "h")
	}
	for _, gf := range c.eng.ghostFields[namedKey(n)] {
		gs, _ := c.eng.resolveType(gf.Pkg, gf.Type)
		k := c.eng.heapKeyRaw("H."+namedKey(n)+"."+gf.Name, gs)
		st.heap[k] = "(store " + c.heapTerm(st, k) + " " + ref + " " + c.eng.zero(gs) + ")"
	}
}

// typing assumptions for reference-typed values read from memory / parameters / results
func (c *Ctx) assumeTyped(st *State, reach string, v Val, t types.Type) {
	if t == nil || v.T == "" {
		return
	}
	switch u := t.Underlying().(type) {
	case *types.Pointer:
		c.assume(reach, "(and (<= 0 "+v.T+") (< "+v.T+" "+c.nextRef(st)+"))")
		if n, ok := u.Elem().(*types.Named); ok {
			if _, ok := n.Underlying().(*types.Struct); ok {
				c.assume(reach, "(or (= "+v.T+" 0) (= (typeOf "+v.T+") "+c.eng.tagOfType(t)+"))")
			}
		}
	case *types.Interface, *types.Map, *types.Signature:
		c.assume(reach, "(and (<= 0 "+v.T+") (< "+v.T+" "+c.nextRef(st)+"))")
	case *types.Slice:
		c.assume(reach, "(and (<= 0 "+c.slLen(v)+") (<= 0 "+c.slOff(v)+"))")
	case *types.Basic:
		if u.Info()&types.IsString != 0 {
			// slen >= 0 is a global axiom
		}
	}
}

func sortedKeys(m map[string]string) []string {
	var ks []string
	for k := range m {
		ks = append(ks, k)
	}
	sort.Strings(ks)
	return ks
}

// qhyp: an assumed universally quantified clause, kept in structured form so that it can be
// instantiated at the skolem constants of a quantified goal (E-matching cannot do this when the
// hypothesis and the goal talk about different heap versions).
type pendFact struct{ tag, text string }

type qhyp struct {
	tag   string
	vars  []Param
	body  *Expr
	trig  [][]*Expr
	ev    *EvalCtx
	reach string
}

// noteHyp records the universally quantified conjuncts of an assumed clause (looking through &&,
// guards and pred expansions), and names witnesses for conjuncts of the form (forall v :: P) ==> Q.
func (c *Ctx) noteHyp(e *Expr, ev *EvalCtx, reach string) {
	switch {
	case e.Op == "binary" && e.Name == "&&":
		c.noteHyp(e.Args[0], ev, reach)
		c.noteHyp(e.Args[1], ev, reach)
	case e.Op == "call" && c.eng.cs.Preds[e.Name] != nil:
		p := c.eng.cs.Preds[e.Name]
		n, err := ev.enterPred(p, e)
		if err == nil {
			c.noteHyp(p.Body, n, reach)
		}
	case e.Op == "forall":
		cp := *ev
		c.qhyps = append(c.qhyps, qhyp{tag: c.curTag, vars: e.Vars, body: e.Args[0], ev: &cp, reach: reach})
	case e.Op == "binary" && e.Name == "==>" && e.Args[0].Op == "forall":
		fa := e.Args[0]
		n := ev
		var sks []SVal
		for _, v := range fa.Vars {
			s, gt := c.eng.resolveType(ev.pkg, v.Type)
			c.skolems++
			sk := c.declare(fmt.Sprintf("wit.%s!%d", v.Name, c.skolems), s)
			sv := SVal{T: sk, S: s, GT: gt}
			sks = append(sks, sv)
			n = n.bind(v.Name, sv)
		}
		p, err1 := n.evalBool(fa.Args[0])
		q, err2 := ev.evalBool(e.Args[1])
		if err1 == nil && err2 == nil {
			c.assume(reach, "(=> "+p+" "+q+")")
			c.skTuples = append(c.skTuples, sks)
		}
	case e.Op == "binary" && e.Name == "==>":
		g, err := ev.evalBool(e.Args[0])
		if err == nil {
			r2 := g
			if reach != "true" {
				r2 = "(and " + reach + " " + g + ")"
			}
			c.noteHyp(e.Args[1], ev, r2)
		}
	}
}

// skolemGoal evaluates a clause as a proof goal: universally quantified conjuncts in positive position are
// skolemised and the recorded hypotheses of matching sorts are instantiated at the skolem constants.
func (c *Ctx) skolemGoal(e *Expr, ev *EvalCtx, reach string) (string, error) {
	n := *ev
	n.mode = 1
	n.reach = reach
	c.pend = nil
	return n.evalBool(e)
}

func (c *Ctx) skolemiseForall(e *Expr, ev *EvalCtx) (string, error) {
	n := ev
	var sks []SVal
	for _, v := range e.Vars {
		s, gt := c.eng.resolveType(ev.pkg, v.Type)
		c.skolems++
		sk := c.declare(fmt.Sprintf("sk.%s!%d", v.Name, c.skolems), s)
		sv := SVal{T: sk, S: s, GT: gt}
		sks = append(sks, sv)
		n = n.bind(v.Name, sv)
	}
	nb := *n
	nb.mode = 0
	t, err := nb.evalBool(e.Args[0])
	if err != nil {
		return "", err
	}
	for _, h := range c.qhyps {
		if len(h.vars) != len(sks) {
			continue
		}
		ok := true
		hn := h.ev
		for k, hv := range h.vars {
			s, _ := c.eng.resolveType(h.ev.pkg, hv.Type)
			// instantiate only hypotheses over the same bound-variable names (contracts use consistent names
			// for the same index space); keeps the number of instances small
			if s != sks[k].S || hv.Name != e.Vars[k].Name {
				ok = false
				break
			}
			hn = hn.bind(hv.Name, sks[k])
		}
		if !ok {
			continue
		}
		hm := *hn
		hm.mode = 0
		ht, err := hm.evalBool(h.body)
		if err != nil {
			continue
		}
		// instances belong to the goal being built, not to the shared fact list (see oblige)
		if ht != "true" && ht != "" {
			ft := ht
			if h.reach != "true" {
				ft = "(=> " + h.reach + " " + ht + ")"
			}
			c.pend = append(c.pend, pendFact{tag: h.tag, text: ft})
		}
	}
	return t, nil
}

// goal (forall v :: A) ==> C: besides assuming the quantified antecedent, instantiate it at the recorded
// witness tuples of matching sorts.
func (c *Ctx) goalWithQuantifiedAntecedent(e *Expr, ev *EvalCtx) (string, error) {
	fa := e.Args[0]
	n0 := *ev
	n0.mode = 0
	ante, err := n0.evalBool(fa)
	if err != nil {
		return "", err
	}
	conj := []string{ante}
	for _, tup := range c.skTuples {
		if len(tup) != len(fa.Vars) {
			continue
		}
		n := &n0
		ok := true
		for k, v := range fa.Vars {
			s, _ := c.eng.resolveType(ev.pkg, v.Type)
			if s != tup[k].S {
				ok = false
				break
			}
			n = n.bind(v.Name, tup[k])
		}
		if !ok {
			continue
		}
		if inst, err := n.evalBool(fa.Args[0]); err == nil {
			conj = append(conj, inst)
		}
	}
	cons, err := ev.evalBool(e.Args[1])
	if err != nil {
		return "", err
	}
	return "(=> (and " + strings.Join(conj, " ") + ") " + cons + ")", nil
}
