package main

import (
	"os"
	"fmt"
	"runtime/debug"
	"go/types"
	"sort"
	"strings"

	"golang.org/x/tools/go/ssa"
)

// verifyFunction generates all obligations of one function under its contract (fc may be nil: safety sweep).
func (e *Engine) verifyFunction(fn *ssa.Function, fc *FuncContract) (c *Ctx) {
	c = e.newCtx(fn, fc)
	c.external = map[string]bool{}
	c.nonNil = map[string]bool{}
	defer func() {
		if r := recover(); r != nil {
			c.errorf("engine panic: %v\n%s", r, debug.Stack())
		}
	}()
	f := c.newFrame(fn, 0, "")
	f.fc = fc
	f.top = true
	st := &State{cells: map[*ssa.Alloc]Val{}, heap: map[string]string{}, iters: map[ssa.Value]Val{}, ghosts: map[string]string{}}
	c.fact("(<= 1 " + c.nextRef(st) + ")")
	var args []Val
	for k, p := range fn.Params {
		s := e.sortOf(p.Type())
		v := Val{T: c.declare("p."+p.Name(), s), S: s, GT: p.Type()}
		if s == "Tuple" {
			c.errorf("tuple-typed parameter")
		}
		c.assumeTyped(st, "true", v, p.Type())
		c.inputs = append(c.inputs, v.T)
		if k == 0 && fn.Signature.Recv() != nil && isRefType(p.Type()) && (fc == nil || !fc.Nullable[p.Name()]) {
			c.fact("(not (= " + v.T + " 0))")
			c.nonNil[v.T] = true
		}
		if fc != nil {
			if k, ok := fc.FnParams[p.Name()]; ok {
				v.FnK = k
			}
			for old, idx := range e.paramAliases(fn) {
				if idx == k {
					if kk, ok := fc.FnParams[old]; ok {
						v.FnK = kk
					}
				}
			}
		}
		args = append(args, v)
	}
	var binds []Val
	for _, fv := range fn.FreeVars {
		// captured variable: pointer to a heap cell
		v := Val{T: c.declare("fv."+fv.Name(), "Int"), S: "Int", GT: fv.Type()}
		c.fact("(and (< 0 " + v.T + ") (< " + v.T + " " + c.nextRef(st) + "))")
		binds = append(binds, v)
	}
	// entry evaluation context
	f.entry = st.clone()
	entryEv := &EvalCtx{c: c, pkg: fn.Pkg.Pkg.Name(), st: st, old: st, vars: map[string]SVal{}, reach: "true"}
	for k, p := range fn.Params {
		entryEv.vars[p.Name()] = SVal{T: args[k].T, S: args[k].S, GT: p.Type()}
	}
	for old, k := range e.paramAliases(fn) {
		entryEv.vars[old] = SVal{T: args[k].T, S: args[k].S, GT: fn.Params[k].Type()}
	}
	for k, fv := range fn.FreeVars {
		entryEv.vars["&"+fv.Name()] = SVal{T: binds[k].T, S: "Int", GT: fv.Type()}
		// the captured variable's current value
		et := fv.Type().(*types.Pointer).Elem()
		s := e.sortOf(et)
		entryEv.vars[fv.Name()] = SVal{T: "(select " + c.heapTerm(st, e.boxKey(et)) + " " + binds[k].T + ")", S: s, GT: et}
	}
	var objs map[string][]string
	var kfc *FuncContract
	if fc != nil && (fc.Implements != "" || len(fc.Defines) > 0) {
		// closure / implementation: bind self and the names of the implemented contract
		selfT := ""
		if fn.Signature.Recv() != nil && len(args) > 0 {
			selfT = args[0].T
			entryEv.vars["self"] = SVal{T: selfT, S: "Int", GT: fn.Params[0].Type()}
		} else {
			selfT = c.declare("p.self", "Int")
			c.fact("(and (< 0 " + selfT + ") (< " + selfT + " " + c.nextRef(st) + "))")
			entryEv.vars["self"] = SVal{T: selfT, S: "Int"}
		}
		for _, d := range fc.Defines {
			g, err := entryEv.evalBool(d.Expr)
			if err != nil {
				c.errorf("%s: define: %v", d.Where, err)
				continue
			}
			c.fact(g)
		}
		if fc.Implements != "" {
			kfc = e.cs.Funcs[fc.Implements]
			if kfc == nil {
				c.errorf("%s: implements unknown contract %s", fc.Where, fc.Implements)
			} else {
				names := e.contractParamNames(fc.Implements, fn)
				off := 0
				if fn.Signature.Recv() != nil {
					off = 1
				}
				for k := off; k < len(fn.Params); k++ {
					if k-off < len(names) {
						entryEv.vars[names[k-off]] = SVal{T: args[k].T, S: args[k].S, GT: fn.Params[k].Type()}
					}
					entryEv.vars[fmt.Sprintf("arg%d", k-off)] = SVal{T: args[k].T, S: args[k].S, GT: fn.Params[k].Type()}
				}
				// fnparams of the implemented contract apply to the same-position parameters
				for pn, kk := range kfc.FnParams {
					for k, n := range names {
						if n == pn && k+off < len(fn.Params) {
							if fc.FnParams == nil {
								fc.FnParams = map[string]string{}
							}
							fc.FnParams[fn.Params[k+off].Name()] = kk
						}
					}
				}
			}
		}
	}
	if fc != nil {
		if kfc != nil {
			for _, rq := range kfc.Requires {
				g, err := entryEv.evalBool(rq.Expr)
				if err != nil {
					c.errorf("%s: requires (implemented contract) %s: %v", rq.Where, rq.Tag(), err)
					continue
				}
				c.fact(g)
			}
		}
		for _, rq := range fc.Requires {
			g, err := entryEv.evalBool(rq.Expr)
			if err != nil {
				c.errorf("%s: requires %s: %v", rq.Where, rq.Tag(), err)
				continue
			}
			c.curTag = rq.Label
			c.fact(g)
			c.noteHyp(rq.Expr, entryEv, "true")
			c.curTag = ""
		}
		for _, u := range fc.Uses {
			entryEv.useAxiom(u)
		}
		var err error
		mods := fc.Modifies
		if kfc != nil {
			mods = append(append([]*Clause{}, mods...), kfc.Modifies...)
		}
		objs, err = entryEv.modifiesObjects(mods)
		if err != nil {
			c.errorf("%s: modifies: %v", fc.Where, err)
		}
		// vacuity guard: the precondition must be satisfiable
		ob := f.oblige("cover:pre", nil, "true", "false")
		if ob != nil {
			ob.Expect = "sat"
		}
	}
	if fc != nil {
		for k, p := range fn.Params {
			if kk, ok := fc.FnParams[p.Name()]; ok {
				args[k].FnK = kk
			}
		}
	}
	entryState := st.clone()
	c.curBlk = nil
	f.fnObjs = objs
	f.hasFrame = fc != nil
	f.run(st, "true", args, binds)
	f.entry = entryState
	// postconditions, frames (returns numbered in source order)
	sort.SliceStable(f.rets, func(i, j int) bool { return f.rets[i].pos < f.rets[j].pos })
	var exitsSeen map[*Clause]error
	for ri, rt := range f.rets {
		if fc == nil {
			continue
		}
		c.curBlk = rt.blk
		post := &EvalCtx{c: c, pkg: fn.Pkg.Pkg.Name(), st: rt.st, old: entryState, vars: map[string]SVal{}, reach: rt.reach, frame: nil}
		for k, v := range entryEv.vars {
			post.vars[k] = v
		}
		bindResults(post.vars, fn.Signature.Results(), rt.vals)
		suffix := ""
		if len(f.rets) > 1 {
			suffix = fmt.Sprintf("@ret%d", ri+1)
		}
		// ghost updates performed at the return (defines g = e): the ghost assignment is the last statement
		for _, df := range fc.GhostDefs {
			if df.Expr.Op != "binary" || df.Expr.Args[0].Op != "ident" {
				c.errorf("%s: defines needs <ghost> = <expr>", df.Where)
				continue
			}
			v, err := post.eval(df.Expr.Args[1])
			if err != nil {
				c.errorf("%s: defines: %v", df.Where, err)
				continue
			}
			rt.st.ghosts[df.Expr.Args[0].Name] = v.T
		}
		for _, u := range fc.UseRets {
			post.useAxiom(u)
		}
		for _, en := range fc.Ensures {
			g, err := c.skolemGoal(en.Expr, post, rt.reach)
			if err != nil {
				c.errorf("%s: ensures %s: %v", en.Where, en.Tag(), err)
				f.unbound("ensures"+en.Tag()+suffix, en, err)
				continue
			}
			f.oblige("ensures"+en.Tag()+suffix, en, rt.reach, g)
		}
		// exit assertions may mention locals; they are checked at the returns where those locals are live
		exitEv := &EvalCtx{c: c, pkg: fn.Pkg.Pkg.Name(), st: rt.st, old: entryState, vars: post.vars, reach: rt.reach, frame: f}
		for _, ex := range fc.Exits {
			g, err := c.skolemGoal(ex.Expr, exitEv, rt.reach)
			if err != nil {
				if exitsSeen == nil {
					exitsSeen = map[*Clause]error{}
				}
				if _, ok := exitsSeen[ex]; !ok {
					exitsSeen[ex] = err
				}
				if ex.Scoped {
					continue
				}
				// the body mentions locals that are not live at this return: then the guard (over parameters and
				// results only) must be false here, so that the clause says something about every return
				if ex.Expr.Op == "binary" && ex.Expr.Name == "==>" {
					gd, gerr := exitEv.evalBool(ex.Expr.Args[0])
					if gerr != nil {
						gd, gerr = post.evalBool(ex.Expr.Args[0])
					}
					if gerr == nil {
						f.oblige("exit"+ex.Tag()+suffix, ex, rt.reach, "(not "+gd+")")
						continue
					}
				}
				c.errorf("%s: exit %s cannot be evaluated at return %d and has no evaluable guard: %v", ex.Where, ex.Tag(), ri+1, err)
				f.unbound("exit"+ex.Tag()+suffix, ex, err)
				continue
			}
			if exitsSeen == nil {
				exitsSeen = map[*Clause]error{}
			}
			exitsSeen[ex] = nil
			f.oblige("exit"+ex.Tag()+suffix, ex, rt.reach, g)
		}
		if kfc != nil {
			short := fc.Implements[strings.Index(fc.Implements, ".")+1:]
			for _, en := range kfc.Ensures {
				g, err := c.skolemGoal(en.Expr, post, rt.reach)
				if err != nil {
					c.errorf("%s: ensures of %s: %v", en.Where, fc.Implements, err)
					f.unbound("subtype["+short+"]"+en.Tag()+suffix, en, err)
					continue
				}
				f.oblige("subtype["+short+"]"+en.Tag()+suffix, en, rt.reach, g)
			}
		}
		// frame: every heap key that changed must respect the modifies clause
		var keys []string
		for k := range rt.st.heap {
			keys = append(keys, k)
		}
		sort.Strings(keys)
		n0 := c.nextRef(entryState)
		// one frame obligation per return: the conjunction over all heap keys that changed
		var fgoals []string
		var fkeys []string
		for _, k := range keys {
			oldH := c.heapTerm(entryState, k)
			newH := c.heapTerm(rt.st, k)
			if oldH == newH {
				continue
			}
			g := c.frameGoal(k, oldH, newH, n0, objs[k])
			if g != "true" {
				fgoals = append(fgoals, g)
				fkeys = append(fkeys, k)
			}
		}
		if len(fgoals) > 0 {
			g := fgoals[0]
			if len(fgoals) > 1 {
				g = "(and " + strings.Join(fgoals, " ") + ")"
			}
			ob := f.oblige("frame"+suffix, nil, rt.reach, g)
			if ob != nil {
				ob.Clause = "nothing outside the modifies clause changed: " + strings.Join(fkeys, ", ")
			}
		}
		var gnames []string
		for name := range rt.st.ghosts {
			gnames = append(gnames, name)
		}
		sort.Strings(gnames)
		for _, name := range gnames {
			if c.ghostTerm(rt.st, name) != c.ghostTerm(entryState, name) {
				if _, ok := objs["ghost:"+name]; !ok {
					f.oblige("frame[ghost:"+name+"]"+suffix, nil, rt.reach, "(= "+c.ghostTerm(rt.st, name)+" "+c.ghostTerm(entryState, name)+")")
				}
			}
		}
	}
	if fc != nil {
		for _, ex := range fc.Exits {
			if err, ok := exitsSeen[ex]; !ok || err != nil {
				if err == nil {
					err = fmt.Errorf("no return reached")
				}
				c.errorf("%s: exit %s applies at no return: %v", ex.Where, ex.Tag(), err)
				f.unbound("exit"+ex.Tag(), ex, err)
			}
		}
	}
	if fc != nil {
		// every labelled loop contract must have been bound to a loop
		bound := map[int]bool{}
		for _, li := range f.loops {
			if li.lc != nil {
				bound[li.ordinal] = true
			}
		}
		for n := range c.inlinedLoopOrdinals {
			bound[n] = true
		}
		for n, lc := range fc.Loops {
			if !bound[n] {
				for _, inv := range lc.Invariants {
					f.unbound(fmt.Sprintf("inv-init%s/loop%d", inv.Tag(), n), inv, fmt.Errorf("function has no loop %d", n))
				}
			}
		}
		if len(f.rets) == 0 {
			c.errorf("function has no reachable return")
		}
	}
	return c
}

// ---------- SMT-LIB emission ----------

func (e *Engine) prelude(c *Ctx) string {
	var sb strings.Builder
	sb.WriteString("(set-option :produce-models true)\n(set-logic ALL)\n(declare-sort Str 0)\n(declare-sort Beh 0)\n")
	for _, name := range e.dtOrder {
		dt := e.dtypes[name]
		sb.WriteString("(declare-datatypes ((" + dt.Name + " 0)) (((" + dt.Ctor)
		for _, f := range dt.Fields {
			sb.WriteString(" (" + f.Acc + " " + f.Sort + ")")
		}
		sb.WriteString("))))\n")
		if strings.HasPrefix(dt.Name, "Sl.") {
			as := dt.Fields[0].Sort
			sb.WriteString("(declare-fun shift." + dt.Name + " (" + as + " Int) " + as + ")\n")
			sb.WriteString("(assert (forall ((a! " + as + ") (d! Int) (i! Int)) (! (= (select (shift." + dt.Name + " a! d!) i!) (select a! (+ i! d!))) :pattern ((select (shift." + dt.Name + " a! d!) i!)))))\n")
		}
	}
	var names []string
	for n := range builtinSpecFuncs {
		names = append(names, n)
	}
	sort.Strings(names)
	for _, n := range names {
		sig := builtinSpecFuncs[n]
		if n == "godiv" || n == "gorem" {
			continue
		}
		needs := true
		for _, a := range append(append([]string{}, sig.args...), sig.res) {
			if strings.HasPrefix(a, "Sl.") {
				if _, ok := e.dtypes[a]; !ok {
					needs = false
				}
			}
		}
		if needs {
			sb.WriteString("(declare-fun " + n + " (" + strings.Join(sig.args, " ") + ") " + sig.res + ")\n")
		}
	}
	sb.WriteString(`(define-fun godiv ((x Int) (y Int)) Int (ite (>= x 0) (ite (> y 0) (div x y) (- (div x (- y)))) (ite (> y 0) (- (div (- x) y)) (div (- x) (- y)))))
(define-fun gorem ((x Int) (y Int)) Int (- x (* y (godiv x y))))
(assert (forall ((s Str)) (! (>= (slen s) 0) :pattern ((slen s)))))
(assert (forall ((a Str) (b Str)) (! (= (slen (sconcat a b)) (+ (slen a) (slen b))) :pattern ((sconcat a b)))))
(assert (forall ((s Str) (a Int) (b Int)) (! (=> (and (<= 0 a) (<= a b) (<= b (slen s))) (= (slen (substr s a b)) (- b a))) :pattern ((substr s a b)))))
(assert (forall ((r Int)) (! (and (<= 1 (slen (runeStr r))) (<= (slen (runeStr r)) 4)) :pattern ((runeStr r)))))
(assert (forall ((r Int)) (! (=> (and (<= 0 r) (< r 128)) (= (slen (runeStr r)) 1)) :pattern ((runeStr r)))))
(assert (forall ((b Int)) (! (= (slen (byteStr b)) 1) :pattern ((byteStr b)))))
(assert (forall ((a Str) (s Str)) (! (hasSuffix (sconcat a s) s) :pattern ((sconcat a s)))))
(assert (forall ((p Sl.Str) (m Sl.Str)) (! (and (= (piecesOf (bstr2 p m)) p) (= (markersOf (bstr2 p m)) m)) :pattern ((bstr2 p m)))))
(assert (forall ((l Int) (f Str) (a Int)) (! (and (= (markerLine (marker l f a)) l) (= (markerFile (marker l f a)) f) (= (markerAt (marker l f a)) a)) :pattern ((marker l f a)))))
(assert (forall ((a Str) (s Str)) (! (=> (hasSuffix a s) (<= (slen s) (slen a))) :pattern ((hasSuffix a s)))))
`)
	// literals
	for k, s := range e.litOrder {
		sb.WriteString(fmt.Sprintf("(declare-const lit!%d Str) ; %q\n", k, trunc(s, 60)))
	}
	if len(e.litOrder) > 1 {
		sb.WriteString("(assert (distinct")
		for k := range e.litOrder {
			sb.WriteString(fmt.Sprintf(" lit!%d", k))
		}
		sb.WriteString("))\n")
	}
	for k, s := range e.litOrder {
		sb.WriteString(fmt.Sprintf("(assert (= (slen lit!%d) %d))\n", k, len(s)))
		r := []rune(s)
		if len(r) == 1 && len(s) >= 1 && string(r[0]) == s {
			sb.WriteString(fmt.Sprintf("(assert (= (runeStr %d) lit!%d))\n", r[0], k))
			if len(s) == 1 {
				sb.WriteString(fmt.Sprintf("(assert (= (byteStr %d) lit!%d))\n", s[0], k))
			}
		}
	}
	// concatenation facts among short literals
	for a, sa := range e.litOrder {
		if len(sa) == 0 {
			continue
		}
		for b, sb2 := range e.litOrder {
			if len(sb2) == 0 {
				continue
			}
			if cidx, ok := e.lits[sa+sb2]; ok {
				sb.WriteString(fmt.Sprintf("(assert (= (sconcat lit!%d lit!%d) %s))\n", a, b, cidx))
			}
		}
	}
	sb.WriteString("(assert (forall ((s Str)) (! (=> (= (slen s) 0) (= s lit!0)) :pattern ((slen s)))))\n")
	sb.WriteString("(assert (forall ((s Str) (a Int)) (! (= (substr s a a) lit!0) :pattern ((substr s a a)))))\n")
	sb.WriteString("(assert (forall ((s Str)) (! (= (sconcat s lit!0) s) :pattern ((sconcat s lit!0)))))\n")
	sb.WriteString("(assert (forall ((s Str)) (! (= (sconcat lit!0 s) s) :pattern ((sconcat lit!0 s)))))\n")
	for _, n := range e.ufOrder {
		sb.WriteString(e.ufuncs[n] + "\n")
	}
	for _, d := range e.fmtDefs {
		sb.WriteString(d)
	}
	for _, n := range e.zarrOrder {
		z := e.zarrs[n]
		k, _ := splitArraySort(z[0])
		sb.WriteString("(declare-const " + n + " " + z[0] + ")\n")
		sb.WriteString("(assert (forall ((i! " + k + ")) (! (= (select " + n + " i!) " + z[1] + ") :pattern ((select " + n + " i!)))))\n")
	}
	return sb.String()
}

func trunc(s string, n int) string {
	if len(s) > n {
		return s[:n] + "..."
	}
	return s
}

// globalAxioms evaluates gaxioms relevant to the context (all of them; they are cheap).
func (c *Ctx) globalAxioms() []string {
	var out []string
	for _, name := range c.eng.cs.AxiomOrder {
		ax := c.eng.cs.Axioms[name]
		if !ax.Global {
			continue
		}
		// axioms of a package-specific vocabulary apply to the functions of that package only
		if ax.Pkg != "spec" && ax.Pkg != c.fn.Pkg.Pkg.Name() {
			continue
		}
		ev := &EvalCtx{c: c, pkg: ax.Pkg, st: &State{cells: map[*ssa.Alloc]Val{}, heap: map[string]string{}, iters: map[ssa.Value]Val{}, ghosts: map[string]string{}}, vars: map[string]SVal{}, reach: "true"}
		ev.old = ev.st
		body := ax.Body
		if len(ax.Params) > 0 {
			body = &Expr{Op: "forall", Vars: ax.Params, Args: []*Expr{ax.Body}}
		}
		t, err := ev.evalBool(body)
		if err != nil {
			c.errorf("%s: gaxiom %s: %v", ax.Where, ax.Name, err)
			continue
		}
		out = append(out, t)
	}
	return out
}

// isFrame: frame obligations (nothing outside the modifies clause changed) are about object identity and allocation;
// they are first tried without the quantified facts that come from user clauses (dropping assumptions is sound),
// which keeps them fast and stable however many invariants a function carries.
func (ob *Obligation) isFrame() bool {
	i := strings.LastIndex(ob.Name, "/")
	n := ob.Name[i+1:]
	return strings.HasPrefix(n, "frame") || strings.HasPrefix(n, "inv-keep[fnframe") || strings.HasPrefix(n, "inv-keep[frame:") || strings.HasPrefix(n, "variant")
}

func (ob *Obligation) query(prelude string, gax []string) string {
	return ob.queryWith(prelude, gax, false)
}

func (ob *Obligation) queryWith(prelude string, gax []string, lean bool) string {
	c := ob.Ctx
	var sb strings.Builder
	sb.WriteString("; " + ob.Name + "\n")
	sb.WriteString(prelude)
	for _, d := range c.decls {
		sb.WriteString(d + "\n")
	}
	for _, a := range gax {
		sb.WriteString("(assert " + a + ")\n")
	}
	sb.WriteString(preludeEndMarker + "\n")
	for k, f := range c.facts[:ob.NFact] {
		// facts established in a block from which the obligation's block cannot be reached are irrelevant
		// on every path to the obligation (their guard is false there); dropping assumptions is always sound
		if ob.Blk != nil && c.fblks[k] != nil && !c.blockReaches(c.fblks[k], ob.Blk) {
			continue
		}
		if ob.PathTail != nil && c.fblks[k] != nil && !ob.PathBlocks[c.fblks[k]] && !c.blockReaches(c.fblks[k], ob.PathTail) {
			continue
		}
		if len(ob.Needs) > 0 && c.ftags[k] != "" {
			// needs: "a,b" = only facts from clauses a,b (plus untagged); "~a,~b" = all but those
			if strings.HasPrefix(ob.Needs[0], "~") {
				if contains(ob.Needs, "~"+c.ftags[k]) {
					continue
				}
			} else if !contains(ob.Needs, c.ftags[k]) {
				continue
			}
		}
		if lean && c.ftags[k] != "" && (strings.Contains(f, "(forall ") || strings.Contains(f, "(exists ")) {
			continue
		}
		sb.WriteString("(assert " + f + ")\n")
	}
	for _, x := range ob.Extra {
		if len(ob.Needs) > 0 && x.tag != "" {
			if strings.HasPrefix(ob.Needs[0], "~") {
				if contains(ob.Needs, "~"+x.tag) {
					continue
				}
			} else if !contains(ob.Needs, x.tag) {
				continue
			}
		}
		sb.WriteString("(assert " + x.text + ")\n")
	}
	sb.WriteString("(assert " + ob.Reach + ")\n")
	sb.WriteString("(assert (not " + ob.Goal + "))\n")
	sb.WriteString("(check-sat)\n")
	if os.Getenv("GOVC_NOPRUNE") != "" {
		return sb.String()
	}
	return pruneQuery(sb.String())
}
