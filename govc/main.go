package main

import (
	"runtime/pprof"
	"flag"
	"fmt"
	"os"
	"regexp"
	"sort"
	"strings"
	"time"
)

func main() {
	if len(os.Args) < 2 {
		fmt.Fprintln(os.Stderr, "usage: govc <verify|check|sweep|baseline|selftest> [flags]")
		os.Exit(2)
	}
	cmd := os.Args[1]
	if pf := os.Getenv("GOVC_CPUPROFILE"); pf != "" {
		if fh, err := os.Create(pf); err == nil {
			pprof.StartCPUProfile(fh)
			defer pprof.StopCPUProfile()
		}
	}
	fs := flag.NewFlagSet(cmd, flag.ExitOnError)
	repo := fs.String("repo", "/repo", "repository working tree")
	verif := fs.String("verif", "/verif", "verification directory")
	fnRe := fs.String("func", "", "regexp on function keys")
	prop := fs.String("property", "", "property id")
	tier := fs.String("tier", "quick", "quick|thorough")
	timeout := fs.Int("timeout", 0, "solver timeout (s)")
	dump := fs.Bool("dump", false, "keep and print query paths")
	verbose := fs.Bool("v", false, "verbose")
	obRe := fs.String("ob", "", "regexp on obligation names")
	split := fs.Bool("split", false, "split failing goals into conjuncts (debugging)")
	fs.Parse(os.Args[2:])

	switch cmd {
	case "verify":
		rc := cmdVerify(*repo, *verif, *fnRe, *obRe, *timeout, *dump, *verbose, *split)
		pprof.StopCPUProfile()
		os.Exit(rc)
	case "check":
		os.Exit(cmdCheck(*repo, *verif, *prop, *tier, *timeout, *verbose))
	case "baseline":
		os.Exit(cmdBaseline(*repo, *verif, *timeout))
	case "sweep":
		os.Exit(cmdSweep(*repo, *verif, *fnRe, *timeout, *verbose))
	default:
		fmt.Fprintln(os.Stderr, "unknown command", cmd)
		os.Exit(2)
	}
}

func scratchDir() string {
	d, err := os.MkdirTemp("", "govc-")
	if err != nil {
		panic(err)
	}
	return d
}

// cmdVerify: development command: verify functions under contract matching a regexp and print results.
func cmdVerify(repo, verif, fnRe, obRe string, timeout int, dump, verbose, split bool) int {
	t0 := time.Now()
	e, err := loadEngine(repo, verif+"/spec")
	if err != nil {
		fmt.Fprintln(os.Stderr, "load:", err)
		return 2
	}
	re := regexp.MustCompile(fnRe)
	var ore *regexp.Regexp
	if obRe != "" {
		ore = regexp.MustCompile(obRe)
	}
	var keys []string
	for k := range e.cs.Funcs {
		keys = append(keys, k)
	}
	sort.Strings(keys)
	var ctxs []*Ctx
	var obs []*Obligation
	for _, k := range keys {
		if !re.MatchString(k) {
			continue
		}
		fc := e.cs.Funcs[k]
		fn := e.funcs[k]
		if fn == nil {
			if !fc.NoBody && !fc.Trusted {
				fmt.Printf("UNBOUND contract %s (%s): no such function\n", k, fc.Where)
			}
			continue
		}
		if fc.Trusted || fc.NoBody {
			continue
		}
		c := e.verifyFunction(fn, fc)
		ctxs = append(ctxs, c)
		for _, er := range c.errs {
			fmt.Printf("ENGINE %s: %s\n", k, er)
		}
		for _, ob := range c.obs {
			if ore != nil && !ore.MatchString(ob.Name) {
				continue
			}
			obs = append(obs, ob)
		}
	}
	if timeout == 0 {
		timeout = 10
	}
	dir := scratchDir()
	if !dump {
		defer os.RemoveAll(dir)
	}
	fmt.Printf("generated %d obligations for %d functions in %.1fs\n", len(obs), len(ctxs), time.Since(t0).Seconds())
	solveAll(e, ctxs, obs, solveOpts{timeout: timeout, dir: dir, models: true})
	bad := 0
	for _, ob := range obs {
		status := "ok  "
		if !ob.ok() && ob.Kind == "rec-progress" {
			// optional obligation (see recursion.go): only printed with -v
			if verbose {
				fmt.Printf("opt  %-8s %-7s %5.2fs %s\n", ob.Result, ob.Solver, ob.TimeS, ob.Name)
			}
			continue
		}
		if !ob.ok() {
			status = "FAIL"
			bad++
		}
		if verbose || !ob.ok() {
			fmt.Printf("%s %-8s %-7s %5.2fs %s\n", status, ob.Result, ob.Solver, ob.TimeS, ob.Name)
			if !ob.ok() {
				if ob.Clause != "" {
					fmt.Printf("       clause: %s (%s)\n", ob.Clause, ob.Where)
				}
				if dump {
					fmt.Printf("       query: %s\n", ob.File)
				}
				if ob.Result == "unbound" {
					fmt.Printf("       unbound: %s\n", ob.Model)
				}
				for s, r := range ob.Raw {
					fmt.Printf("       %s: %s\n", s, strings.ReplaceAll(r, "\n", " "))
				}
			}
		}
	}
	if split {
		for _, ob := range obs {
			if ob.ok() || ob.Result == "unbound" {
				continue
			}
			parts := conjuncts(ob.Goal)
			if len(parts) < 2 {
				continue
			}
			var subs []*Obligation
			for k, pt := range parts {
				so := *ob
				so.Name = fmt.Sprintf("%s::conj%d", ob.Name, k+1)
				so.Goal = pt
				so.Raw = nil
				so.Result = ""
				so.TimeS = 0
				subs = append(subs, &so)
			}
			solveAll(e, ctxs, subs, solveOpts{timeout: timeout, dir: dir})
			for _, so := range subs {
				if !so.ok() {
					fmt.Printf("  conjunct FAIL %-8s %s\n     %s\n", so.Result, so.Name, trunc(so.Goal, 600))
				}
			}
		}
	}
	fmt.Printf("%d obligations, %d not discharged, %.1fs\n", len(obs), bad, time.Since(t0).Seconds())
	if bad > 0 {
		return 1
	}
	return 0
}

// conjuncts flattens nested top-level (and ...) of an s-expression
func conjuncts(g string) []string {
	g = strings.TrimSpace(g)
	if strings.HasPrefix(g, "(=> ") {
		parts := splitTop(g[1 : len(g)-1])
		if len(parts) == 3 {
			var out []string
			for _, c := range conjuncts(parts[2]) {
				out = append(out, "(=> "+parts[1]+" "+c+")")
			}
			return out
		}
	}
	if !strings.HasPrefix(g, "(and ") {
		return []string{g}
	}
	var out []string
	for _, p := range splitTop(g[1 : len(g)-1])[1:] {
		out = append(out, conjuncts(p)...)
	}
	return out
}
