package main

// Termination of recursion among functions under contract (C18). For every call from f to g inside one strongly
// connected component of the call graph the obligation "rec-progress" asks for f's termination measure (the function's
// default loop variant, loopdecr) to be strictly smaller at the call than at f's entry. Such an obligation may fail
// (the call is made before anything was consumed); what must hold is that the calls whose obligation fails form no
// cycle: then (measure, position in a topological order of those calls) decreases lexicographically on every call
// of the component. The acyclicity test is scanRecursion.

import (
	"fmt"
	"os"
	"sort"
	"strings"

	"golang.org/x/tools/go/ssa"
)

// contractCallees: keys of the functions under contract reachable from fn through calls, descending through
// functions without contract; calls through a function-valued parameter reach every implementer of its contract.
func (e *Engine) contractCallees(fn *ssa.Function) []string {
	out := map[string]bool{}
	seen := map[*ssa.Function]bool{}
	var walk func(g *ssa.Function)
	walk = func(g *ssa.Function) {
		if seen[g] {
			return
		}
		seen[g] = true
		for _, b := range g.Blocks {
			for _, ins := range b.Instrs {
				ci, ok := ins.(ssa.CallInstruction)
				if !ok {
					continue
				}
				com := ci.Common()
				if sc := com.StaticCallee(); sc != nil {
					if k, ok := e.keyOf[sc]; ok && e.cs.Funcs[k] != nil && !e.cs.Funcs[k].Inline {
						out[k] = true
					} else if sc.Blocks != nil {
						walk(sc)
					}
					continue
				}
				// dynamic call through a parameter with a function contract
				if pname := paramNameOf(com.Value); pname != "" {
					if fc := e.cs.Funcs[e.keyOf[g]]; fc != nil {
						if tk, ok := fc.FnParams[pname]; ok {
							for k, c2 := range e.cs.Funcs {
								if c2.Implements == tk {
									out[k] = true
								}
							}
						}
					}
				}
			}
		}
		for _, an := range g.AnonFuncs {
			_ = an
		}
	}
	walk(fn)
	var ks []string
	for k := range out {
		ks = append(ks, k)
	}
	sort.Strings(ks)
	return ks
}

// sccOf computes, once, the strongly connected components of the call graph of the functions under contract.
func (e *Engine) sccOf(key string) int {
	e.sccOnce.Do(func() {
		e.sccID = map[string]int{}
		adj := map[string][]string{}
		var keys []string
		for k, fc := range e.cs.Funcs {
			if fn := e.funcs[k]; fn != nil && fc != nil {
				keys = append(keys, k)
				adj[k] = e.contractCallees(fn)
			}
		}
		sort.Strings(keys)
		e.callAdj = adj
		// Tarjan
		index := 0
		idx := map[string]int{}
		low := map[string]int{}
		on := map[string]bool{}
		var stack []string
		comp := 0
		var strong func(v string)
		strong = func(v string) {
			idx[v] = index
			low[v] = index
			index++
			stack = append(stack, v)
			on[v] = true
			for _, w := range adj[v] {
				if _, ok := idx[w]; !ok {
					if _, isNode := adj[w]; !isNode {
						continue
					}
					strong(w)
					if low[w] < low[v] {
						low[v] = low[w]
					}
				} else if on[w] && idx[w] < low[v] {
					low[v] = idx[w]
				}
			}
			if low[v] == idx[v] {
				var members []string
				for {
					w := stack[len(stack)-1]
					stack = stack[:len(stack)-1]
					on[w] = false
					members = append(members, w)
					if w == v {
						break
					}
				}
				selfLoop := false
				for _, w := range adj[v] {
					if w == v {
						selfLoop = true
					}
				}
				if len(members) > 1 || selfLoop {
					comp++
					for _, w := range members {
						e.sccID[w] = comp
					}
				}
			}
		}
		for _, k := range keys {
			if _, ok := idx[k]; !ok {
				strong(k)
			}
		}
		if os.Getenv("GOVC_DEBUG_SCC") != "" {
			for _, k := range keys {
				fmt.Fprintf(os.Stderr, "scc %d %s -> %v\n", e.sccID[k], k, adj[k])
			}
		}
	})
	return e.sccID[key]
}

// recursive: are caller and callee (contract keys) in one recursive component?
func (e *Engine) recursive(caller, callee string) bool {
	a, b := e.sccOf(caller), e.sccOf(callee)
	return a != 0 && a == b
}

// scanRecursion: the calls of a recursive component whose progress obligation was not discharged must be acyclic.
func scanRecursion(pr *propRun) scanResult {
	adj := map[string]map[string]bool{}
	n := 0
	for _, ob := range pr.obs {
		if !strings.HasPrefix(ob.Kind, "rec-progress") || ob.ok() {
			continue
		}
		n++
		callee := ob.RecCallee
		if adj[ob.Func] == nil {
			adj[ob.Func] = map[string]bool{}
		}
		adj[ob.Func][callee] = true
	}
	// cycle search
	color := map[string]int{}
	var cyc []string
	var dfs func(v string, path []string) bool
	dfs = func(v string, path []string) bool {
		color[v] = 1
		path = append(path, v)
		var ws []string
		for w := range adj[v] {
			ws = append(ws, w)
		}
		sort.Strings(ws)
		for _, w := range ws {
			if color[w] == 1 {
				cyc = append(append([]string{}, path...), w)
				return true
			}
			if color[w] == 0 && dfs(w, path) {
				return true
			}
		}
		color[v] = 2
		return false
	}
	var vs []string
	for v := range adj {
		vs = append(vs, v)
	}
	sort.Strings(vs)
	for _, v := range vs {
		if color[v] == 0 && dfs(v, nil) {
			break
		}
	}
	if cyc != nil {
		return scanResult{"scan[C18:recursion]", false, "recursive calls made without provable progress form a cycle: " + strings.Join(cyc, " -> ")}
	}
	return scanResult{"scan[C18:recursion]", true, fmt.Sprintf("%d recursive calls are made before anything is consumed; they form no cycle, so (what is left to read, order of those calls) decreases on every recursive call", n)}
}
