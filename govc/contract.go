package main

// Contract files: comment-only Go files (//@ lines) in /repo/<pkg>/contracts_verif.go
// and spec vocabulary files /verif/spec/*.gvs (same syntax, without the //@ prefix).

import (
	"fmt"
	"os"
	"path/filepath"
	"regexp"
	"sort"
	"strconv"
	"strings"
)

type Clause struct {
	Kind   string   // requires ensures invariant decreases modifies use
	Props  []string // property ids
	Label  string   // clause name
	Text   string
	Expr   *Expr
	Exprs  []*Expr
	Where  string // file:line
	KnownK string // id of known finding carve-out attached (if any)
	Needs  []string // labels of the clauses whose assumed facts this obligation may use (empty: all)
	Scoped bool     // exit clause skipped at returns where its locals are not live
	Split  int      // >0: one obligation per path into the nearest join(s), this many joins deep
}

func (c *Clause) Tag() string {
	if len(c.Props) == 0 && c.Label == "" {
		return ""
	}
	return "[" + strings.Join(c.Props, ",") + ":" + c.Label + "]"
}

type LoopContract struct {
	Ordinal    int
	Invariants []*Clause
	Decreases  *Clause
	Modifies   []*Clause
	Uses       []*Clause
	Transitions []*Clause
}

type FuncContract struct {
	Key      string
	Pkg      string
	Where    string
	Requires []*Clause
	Ensures  []*Clause
	LoopDecr   *Clause // default variant of every non-range loop (loopdecr E, from a template)
	TermAssume *Clause // hypothesis under which the variants are proved (termassume E)
	GhostDefs []*Clause // ghost updates performed at every return: defines <ghost> = expr
	Exits    []*Clause // exit assertions: checked at every return where their locals are live; not part of the callers' view
	Modifies []*Clause
	Uses     []*Clause
	UseRets  []*Clause
	Decr     *Clause
	Loops    map[int]*LoopContract
	Inline   bool
	Trusted  bool // assumed, body not checked
	NoBody   bool // interface method / function parameter contract
	Pure     bool
	FnParams map[string]string // parameter name -> contract key it implements
	ParamNames []string         // parameter names of a no-body contract
	ExtraProps map[string]bool  // properties of the implemented contract
	Includes []string           // template contracts whose clauses are copied into this one
	LoopInvs []*Clause          // default invariants for every loop of the function (from templates)
	Implements string          // key of the (no-body) contract this function must satisfy
	Defines  []*Clause          // closure contracts: F(self) == expr, assumed at creation (definitional on the fresh closure)
	Nullable map[string]bool
}

type SpecFunc struct {
	Name   string
	Params []Param
	Result *TypeExpr
	Body   *Expr
	Pkg    string
	Where  string
}

type Pred struct {
	Name   string
	Params []Param
	Body   *Expr
	Pkg    string
}

type Axiom struct {
	Name   string
	Params []Param
	Body   *Expr
	Pkg    string
	Where  string
	Global bool // asserted (quantified) in every query of functions in scope
}

type GhostVar struct {
	Name string
	Type *TypeExpr
	Pkg  string
}

type GhostField struct {
	Struct string // pkg.Type
	Name   string
	Type   *TypeExpr
	Pkg    string
}

type Contracts struct {
	Funcs      map[string]*FuncContract
	Specs      map[string]*SpecFunc
	Preds      map[string]*Pred
	Axioms     map[string]*Axiom
	AxiomOrder []string
	Ghosts     map[string]*GhostVar
	GFields    []*GhostField
	Files      []string
}

func newContracts() *Contracts {
	return &Contracts{Funcs: map[string]*FuncContract{}, Specs: map[string]*SpecFunc{}, Preds: map[string]*Pred{},
		Axioms: map[string]*Axiom{}, Ghosts: map[string]*GhostVar{}}
}

var clauseKeywords = map[string]bool{
	"spec": true, "pred": true, "axiom": true, "ghost": true, "func": true, "requires": true, "ensures": true, "exit": true, "scoped": true, "defines": true, "termassume": true, "loopdecr": true,
	"modifies": true, "use": true, "decreases": true, "inline": true, "trusted": true, "loop": true, "end": true,
	"invariant": true, "package": true, "fnparam": true, "nullable": true, "pure": true, "nobody": true, "gaxiom": true, "useret": true, "implements": true, "define": true, "transition": true, "include": true, "loopinv": true, "params": true,
}

var labelRe = regexp.MustCompile(`^\[([A-Za-z0-9,]*):([A-Za-z0-9_\-./]+)(?:\|([A-Za-z0-9_\-./,~]*))?\]\s*`)
var funcHdrRe = regexp.MustCompile(`^(?:\(\s*(?:\w+\s+)?\*?(\w+)\s*\)\s*)?([\w$]+)$`)

type rawLine struct {
	text  string
	where string
}

func (cs *Contracts) loadFile(path string, goFile bool) error {
	data, err := os.ReadFile(path)
	if err != nil {
		return err
	}
	cs.Files = append(cs.Files, path)
	pkg := ""
	var lines []rawLine
	for i, ln := range strings.Split(string(data), "\n") {
		where := fmt.Sprintf("%s:%d", filepath.Base(filepath.Dir(path))+"/"+filepath.Base(path), i+1)
		t := strings.TrimSpace(ln)
		if goFile {
			if strings.HasPrefix(t, "package ") {
				pkg = strings.TrimSpace(strings.TrimPrefix(t, "package "))
				continue
			}
			if !strings.HasPrefix(t, "//@") {
				continue
			}
			t = strings.TrimSpace(strings.TrimPrefix(t, "//@"))
		}
		if t == "" || strings.HasPrefix(t, "//") {
			continue
		}
		// strip trailing comment (only when preceded by two spaces, to keep "//" inside strings safe)
		if j := strings.Index(t, "  //"); j >= 0 && !strings.Contains(t[j:], "\"") {
			t = strings.TrimSpace(t[:j])
		}
		first := t
		if j := strings.IndexAny(t, " \t"); j >= 0 {
			first = t[:j]
		}
		if clauseKeywords[first] {
			lines = append(lines, rawLine{t, where})
		} else if len(lines) > 0 {
			lines[len(lines)-1].text += " " + t
		} else {
			return fmt.Errorf("%s: continuation line without a clause", where)
		}
	}
	var cur *FuncContract
	var curLoop *LoopContract
	for _, rl := range lines {
		kw, rest := rl.text, ""
		if j := strings.IndexAny(rl.text, " \t"); j >= 0 {
			kw, rest = rl.text[:j], strings.TrimSpace(rl.text[j+1:])
		}
		fail := func(err error) error { return fmt.Errorf("%s: %v", rl.where, err) }
		mkClause := func(kind string) (*Clause, error) {
			c := &Clause{Kind: kind, Where: rl.where}
			if m := labelRe.FindStringSubmatch(rest); m != nil {
				if m[1] != "" {
					c.Props = strings.Split(m[1], ",")
				}
				c.Label = m[2]
				if m[3] != "" {
					for _, nd := range strings.Split(m[3], ",") {
						// "split" / "split2": discharge the obligation once per path into the nearest join(s)
						if nd == "split" {
							c.Split = 1
						} else if nd == "split2" {
							c.Split = 2
						} else if nd == "split3" {
							c.Split = 3
						} else {
							c.Needs = append(c.Needs, nd)
						}
					}
				}
				rest = rest[len(m[0]):]
			}
			c.Text = rest
			var err error
			switch kind {
			case "modifies", "decreases":
				c.Exprs, err = parseSpecExprList(rest)
			default:
				c.Expr, err = parseSpecExpr(rest)
			}
			if err != nil {
				return nil, fail(err)
			}
			return c, nil
		}
		switch kw {
		case "package":
			pkg = rest
		case "spec", "pred":
			name, params, res, tail, err := parseSignature(rest)
			if err != nil {
				return fail(err)
			}
			var body *Expr
			if tail != "" {
				if !strings.HasPrefix(tail, "=") {
					return fail(fmt.Errorf("expected '=' before body, got %q", tail))
				}
				body, err = parseSpecExpr(strings.TrimSpace(tail[1:]))
				if err != nil {
					return fail(err)
				}
			}
			if kw == "pred" {
				if body == nil {
					return fail(fmt.Errorf("pred %s needs a body", name))
				}
				cs.Preds[name] = &Pred{Name: name, Params: params, Body: body, Pkg: pkg}
			} else {
				if res == nil {
					return fail(fmt.Errorf("spec %s needs a result type", name))
				}
				cs.Specs[name] = &SpecFunc{Name: name, Params: params, Result: res, Body: body, Pkg: pkg, Where: rl.where}
			}
		case "axiom", "gaxiom":
			j := strings.Index(rest, ":")
			// name(params): body   -- find the ':' that ends the header (after the closing paren if any)
			hdr := ""
			if k := strings.Index(rest, "("); k >= 0 && k < j {
				depth := 0
				for x := k; x < len(rest); x++ {
					if rest[x] == '(' {
						depth++
					} else if rest[x] == ')' {
						depth--
						if depth == 0 {
							j = x + 1 + strings.Index(rest[x+1:], ":")
							break
						}
					}
				}
			}
			if j < 0 {
				return fail(fmt.Errorf("axiom needs 'name: body'"))
			}
			hdr = strings.TrimSpace(rest[:j])
			name, params, _, _, err := parseSignature(hdr)
			if err != nil {
				return fail(err)
			}
			body, err := parseSpecExpr(strings.TrimSpace(rest[j+1:]))
			if err != nil {
				return fail(err)
			}
			cs.Axioms[name] = &Axiom{Name: name, Params: params, Body: body, Pkg: pkg, Where: rl.where, Global: kw == "gaxiom"}
			cs.AxiomOrder = append(cs.AxiomOrder, name)
		case "ghost":
			f := strings.Fields(rest)
			if len(f) >= 3 && f[0] == "var" {
				ty, err := parseTypeString(strings.Join(f[2:], " "))
				if err != nil {
					return fail(err)
				}
				cs.Ghosts[f[1]] = &GhostVar{Name: f[1], Type: ty, Pkg: pkg}
			} else if len(f) >= 3 && f[0] == "field" {
				// ghost field pkg.Type.name T
				ty, err := parseTypeString(strings.Join(f[2:], " "))
				if err != nil {
					return fail(err)
				}
				k := strings.LastIndex(f[1], ".")
				if k < 0 {
					return fail(fmt.Errorf("ghost field needs Type.name"))
				}
				st := f[1][:k]
				if !strings.Contains(st, ".") {
					st = pkg + "." + st
				}
				cs.GFields = append(cs.GFields, &GhostField{Struct: st, Name: f[1][k+1:], Type: ty, Pkg: pkg})
			} else {
				return fail(fmt.Errorf("bad ghost declaration"))
			}
		case "func":
			m := funcHdrRe.FindStringSubmatch(rest)
			if m == nil {
				return fail(fmt.Errorf("bad func header %q", rest))
			}
			key := pkg + "."
			if m[1] != "" {
				key += m[1] + "."
			}
			key += m[2]
			if _, dup := cs.Funcs[key]; dup {
				return fail(fmt.Errorf("duplicate contract for %s", key))
			}
			cur = &FuncContract{Key: key, Pkg: pkg, Where: rl.where, Loops: map[int]*LoopContract{}, FnParams: map[string]string{}, Nullable: map[string]bool{}}
			cs.Funcs[key] = cur
			curLoop = nil
		case "end":
			cur, curLoop = nil, nil
		case "loop":
			if cur == nil {
				return fail(fmt.Errorf("loop outside func"))
			}
			n, err := strconv.Atoi(rest)
			if err != nil {
				return fail(err)
			}
			curLoop = &LoopContract{Ordinal: n}
			cur.Loops[n] = curLoop
		case "inline", "trusted", "pure", "nobody":
			if cur == nil {
				return fail(fmt.Errorf("%s outside func", kw))
			}
			switch kw {
			case "inline":
				cur.Inline = true
			case "trusted":
				cur.Trusted = true
			case "pure":
				cur.Pure = true
			case "nobody":
				cur.NoBody = true
			}
		case "fnparam":
			// fnparam name implements Key
			f := strings.Fields(rest)
			if cur == nil || len(f) != 3 || f[1] != "implements" {
				return fail(fmt.Errorf("bad fnparam"))
			}
			k := f[2]
			if !strings.Contains(k, ".") {
				k = pkg + "." + k
			}
			cur.FnParams[f[0]] = k
		case "include":
			if cur == nil {
				return fail(fmt.Errorf("include outside func"))
			}
			k := rest
			if !strings.Contains(k, ".") {
				k = pkg + "." + k
			}
			cur.Includes = append(cur.Includes, k)
		case "params":
			if cur == nil {
				return fail(fmt.Errorf("params outside func"))
			}
			for _, n := range strings.Split(rest, ",") {
				cur.ParamNames = append(cur.ParamNames, strings.TrimSpace(n))
			}
		case "loopinv":
			if cur == nil {
				return fail(fmt.Errorf("loopinv outside func"))
			}
			c, err := mkClause("invariant")
			if err != nil {
				return err
			}
			cur.LoopInvs = append(cur.LoopInvs, c)
		case "implements":
			if cur == nil {
				return fail(fmt.Errorf("implements outside func"))
			}
			k := rest
			if strings.HasPrefix(k, "(") {
				// (Iface) method
				m := funcHdrRe.FindStringSubmatch(k)
				if m == nil {
					return fail(fmt.Errorf("bad implements target %q", k))
				}
				k = pkg + "." + m[1] + "." + m[2]
			} else if !strings.Contains(k, ".") {
				k = pkg + "." + k
			}
			cur.Implements = k
		case "define":
			if cur == nil {
				return fail(fmt.Errorf("define outside func"))
			}
			c, err := mkClause("define")
			if err != nil {
				return err
			}
			cur.Defines = append(cur.Defines, c)
		case "nullable":
			if cur == nil {
				return fail(fmt.Errorf("nullable outside func"))
			}
			for _, n := range strings.Split(rest, ",") {
				cur.Nullable[strings.TrimSpace(n)] = true
			}
		case "useret":
			if cur == nil {
				return fail(fmt.Errorf("useret outside func"))
			}
			c, err := mkClause("use")
			if err != nil {
				return err
			}
			cur.UseRets = append(cur.UseRets, c)
		case "transition":
			if curLoop == nil {
				return fail(fmt.Errorf("transition outside loop"))
			}
			c, err := mkClause("transition")
			if err != nil {
				return err
			}
			curLoop.Transitions = append(curLoop.Transitions, c)
		case "loopdecr":
			if cur == nil {
				return fail(fmt.Errorf("loopdecr outside func"))
			}
			c, err := mkClause("decreases")
			if err != nil {
				return err
			}
			cur.LoopDecr = c
		case "termassume":
			if cur == nil {
				return fail(fmt.Errorf("termassume outside func"))
			}
			c, err := mkClause("termassume")
			if err != nil {
				return err
			}
			cur.TermAssume = c
		case "defines":
			if cur == nil {
				return fail(fmt.Errorf("defines outside func"))
			}
			// defines g = expr  (parsed as the equation g == expr)
			j := strings.Index(rest, "=")
			if j < 0 {
				return fail(fmt.Errorf("defines needs <ghost> = <expr>"))
			}
			saved := rest
			rest = strings.TrimSpace(rest[:j]) + " == (" + strings.TrimSpace(rest[j+1:]) + ")"
			c, err := mkClause("defines")
			rest = saved
			if err != nil {
				return err
			}
			cur.GhostDefs = append(cur.GhostDefs, c)
		case "requires", "ensures", "exit", "scoped", "modifies", "use", "decreases", "invariant":
			if cur == nil {
				return fail(fmt.Errorf("%s outside func", kw))
			}
			c, err := mkClause(kw)
			if err != nil {
				return err
			}
			switch kw {
			case "requires":
				cur.Requires = append(cur.Requires, c)
			case "ensures":
				cur.Ensures = append(cur.Ensures, c)
			case "exit":
				cur.Exits = append(cur.Exits, c)
			case "scoped":
				// an exit clause that applies at the returns where the locals it names are in scope (and must
				// apply at one return at least); used for clauses about error returns inside a branch
				c.Kind = "exit"
				c.Scoped = true
				cur.Exits = append(cur.Exits, c)
			case "modifies":
				if curLoop != nil {
					curLoop.Modifies = append(curLoop.Modifies, c)
				} else {
					cur.Modifies = append(cur.Modifies, c)
				}
			case "use":
				if curLoop != nil {
					curLoop.Uses = append(curLoop.Uses, c)
				} else {
					cur.Uses = append(cur.Uses, c)
				}
			case "decreases":
				if curLoop != nil {
					curLoop.Decreases = c
				} else {
					cur.Decr = c
				}
			case "invariant":
				if curLoop == nil {
					return fail(fmt.Errorf("invariant outside loop"))
				}
				curLoop.Invariants = append(curLoop.Invariants, c)
			}
		}
	}
	return nil
}

func loadContracts(repo string, specDir string) (*Contracts, error) {
	cs := newContracts()
	if specDir != "" {
		files, _ := filepath.Glob(filepath.Join(specDir, "*.gvs"))
		sort.Strings(files)
		for _, f := range files {
			if err := cs.loadFile(f, false); err != nil {
				return nil, err
			}
		}
	}
	files, _ := filepath.Glob(filepath.Join(repo, "*", "contracts_verif*.go"))
	more, _ := filepath.Glob(filepath.Join(repo, "contracts_verif*.go"))
	files = append(files, more...)
	sort.Strings(files)
	for _, f := range files {
		if err := cs.loadFile(f, true); err != nil {
			return nil, err
		}
	}
	// expand templates
	for _, fc := range cs.Funcs {
		for _, inc := range fc.Includes {
			t := cs.Funcs[inc]
			if t == nil {
				return nil, fmt.Errorf("%s: include of unknown template %s", fc.Where, inc)
			}
			fc.Requires = append(append([]*Clause{}, t.Requires...), fc.Requires...)
			fc.Ensures = append(append([]*Clause{}, t.Ensures...), fc.Ensures...)
			fc.Modifies = append(append([]*Clause{}, t.Modifies...), fc.Modifies...)
			fc.Uses = append(append([]*Clause{}, t.Uses...), fc.Uses...)
			fc.LoopInvs = append(append([]*Clause{}, t.LoopInvs...), fc.LoopInvs...)
			if fc.LoopDecr == nil {
				fc.LoopDecr = t.LoopDecr
			}
			if fc.TermAssume == nil {
				fc.TermAssume = t.TermAssume
			}
		}
	}
	for _, fc := range cs.Funcs {
		if fc.Implements != "" {
			if t := cs.Funcs[fc.Implements]; t != nil {
				fc.ExtraProps = t.propsOf()
			}
		}
	}
	return cs, nil
}

// propsOf returns all property ids mentioned by a function contract.
func (fc *FuncContract) propsOf() map[string]bool {
	out := map[string]bool{}
	for p := range fc.ExtraProps {
		out[p] = true
	}
	add := func(cs []*Clause) {
		for _, c := range cs {
			for _, p := range c.Props {
				out[p] = true
			}
		}
	}
	add(fc.Requires)
	add(fc.Ensures)
	add(fc.Exits)
	add(fc.LoopInvs)
	for _, l := range fc.Loops {
		add(l.Invariants)
		add(l.Transitions)
		if l.Decreases != nil {
			add([]*Clause{l.Decreases})
		}
	}
	if fc.LoopDecr != nil {
		add([]*Clause{fc.LoopDecr})
	}
	if fc.Decr != nil {
		add([]*Clause{fc.Decr})
	}
	return out
}
