package main

// Replays and known-finding witnesses run against the real code through `go test -overlay`
// (in-package test files from /verif/harness are injected without writing into /repo).

import (
	"context"
	"encoding/json"
	"fmt"
	"os"
	"os/exec"
	"path/filepath"
	"strings"
	"time"
)

func goEnv() []string {
	env := os.Environ()
	env = append(env, "GOFLAGS=-mod=mod", "GOPROXY=off", "GOSUMDB=off", "GOTOOLCHAIN=local")
	return env
}

// runHarness runs test `name` of harness package pkg (lexer|parser|emitter) and returns its output.
func runHarness(repo, verif, pkg, run string, env []string, timeout time.Duration) (string, error) {
	files, _ := filepath.Glob(filepath.Join(verif, "harness", pkg, "*_test.go"))
	if len(files) == 0 {
		return "", fmt.Errorf("no harness for package %s", pkg)
	}
	ov := map[string]map[string]string{"Replace": {}}
	for _, f := range files {
		ov["Replace"][filepath.Join(repo, pkg, "zz_verif_"+filepath.Base(f))] = f
	}
	dir, err := os.MkdirTemp("", "govc-ov-")
	if err != nil {
		return "", err
	}
	defer os.RemoveAll(dir)
	data, _ := json.Marshal(ov)
	ovf := filepath.Join(dir, "overlay.json")
	os.WriteFile(ovf, data, 0o644)
	ctx, cancel := context.WithTimeout(context.Background(), timeout+30*time.Second)
	defer cancel()
	cmd := exec.CommandContext(ctx, "go", "test", "-overlay", ovf, "-vet=off", "-count=1", "-timeout", fmt.Sprintf("%ds", int(timeout.Seconds())), "-run", run, "-v", "./"+pkg)
	cmd.Dir = repo
	cmd.Env = append(goEnv(), env...)
	out, err := cmd.CombinedOutput()
	return string(out), err
}

// runKnownFindings re-runs the witnesses of the known findings of a property.
func runKnownFindings(repo, verif, prop string, known []KnownFinding, tier string) (lines []string, newViol []string) {
	// one go test invocation per harness package
	byPkg := map[string][]string{}
	for _, k := range known {
		if k.Property != prop || k.Harness == "" {
			continue
		}
		parts := strings.SplitN(k.Harness, ":", 2)
		if len(parts) == 2 {
			byPkg[parts[0]] = append(byPkg[parts[0]], parts[1])
		}
	}
	outs := map[string]string{}
	for pkg, tests := range byPkg {
		out, _ := runHarness(repo, verif, pkg, "^("+strings.Join(tests, "|")+")$", nil, 120*time.Second)
		outs[pkg] = out
	}
	for _, k := range known {
		if k.Property != prop || k.Harness == "" {
			continue
		}
		parts := strings.SplitN(k.Harness, ":", 2)
		if len(parts) != 2 {
			continue
		}
		out := outs[parts[0]]
		fails := strings.Contains(out, "WITNESS-FAILS "+k.ID+" ")
		passes := strings.Contains(out, "WITNESS-PASSES "+k.ID+" ")
		switch k.Status {
		case "open":
			if fails {
				lines = append(lines, fmt.Sprintf("KNOWN-FINDING: property=%s %s %s", prop, k.ID, k.What))
			} else if !passes {
				lines = append(lines, fmt.Sprintf("govc: witness of known finding %s did not run: %s", k.ID, trunc(strings.ReplaceAll(tail(out, 400), "\n", " | "), 400)))
			}
		case "fixed":
			if fails {
				path := filepath.Join(verif, "replays", prop, slug("regression_"+k.ID)+".json")
				os.MkdirAll(filepath.Dir(path), 0o755)
				data, _ := json.MarshalIndent(map[string]interface{}{"property": prop, "finding": k, "output": trunc(out, 20000)}, "", " ")
				os.WriteFile(path, data, 0o644)
				newViol = append(newViol, fmt.Sprintf("VIOLATION property=%s replay=%s regression of fixed finding %s: %s", prop, path, k.ID, k.What))
			}
		}
	}
	return
}

// propHarness: property -> pkg:Test of the bounded search used to look for a concrete failing input
var propHarness = map[string]string{}

func loadPropHarness(verif string) {
	data, err := os.ReadFile(filepath.Join(verif, "harness", "index.json"))
	if err == nil {
		json.Unmarshal(data, &propHarness)
	}
}

// tryReplay looks for a concrete failing input for a violated obligation with the property's
// bounded search harness (if any) and records it in the replay file.
func tryReplay(repo, verif, prop string, ob *Obligation, path string) (bool, string) {
	loadPropHarness(verif)
	h, ok := propHarness[prop]
	if !ok {
		return false, ""
	}
	parts := strings.SplitN(h, ":", 2)
	if len(parts) != 2 {
		return false, ""
	}
	out, _ := runHarness(repo, verif, parts[0], "^"+parts[1]+"$", []string{"VERIF_OBLIGATION=" + ob.Name}, 120*time.Second)
	var found []string
	for _, ln := range strings.Split(out, "\n") {
		if i := strings.Index(ln, "FAILING-INPUT "); i >= 0 {
			found = append(found, strings.TrimSpace(ln[i:]))
		}
	}
	// append to the replay file
	var rec map[string]interface{}
	if data, err := os.ReadFile(path); err == nil {
		json.Unmarshal(data, &rec)
	}
	if rec == nil {
		rec = map[string]interface{}{}
	}
	rec["replay_harness"] = h
	rec["replay_confirmed"] = len(found) > 0
	if len(found) > 5 {
		found = found[:5]
	}
	rec["failing_inputs"] = found
	if len(found) == 0 {
		rec["replay_output_tail"] = trunc(tail(out, 2000), 2000)
	}
	data, _ := json.MarshalIndent(rec, "", " ")
	os.WriteFile(path, data, 0o644)
	if len(found) > 0 {
		return true, found[0]
	}
	return false, ""
}

func tail(s string, n int) string {
	if len(s) > n {
		return s[len(s)-n:]
	}
	return s
}

// runBounded runs the bounded stand-ins registered for a property (harness/index.json, key "bounded:<prop>").
// They check contracts of functions that are not (yet) within the verifier's reach on an enumerated, stated
// bound. Their cases are reported separately and never counted as discharged obligations.
func runBounded(repo, verif, prop, tier string) (summary []string, failing []string) {
	loadPropHarness(verif)
	h, ok := propHarness["bounded:"+prop]
	if !ok {
		return nil, nil
	}
	for _, one := range strings.Split(h, ",") {
		parts := strings.SplitN(strings.TrimSpace(one), ":", 2)
		if len(parts) != 2 {
			continue
		}
		out, _ := runHarness(repo, verif, parts[0], "^"+parts[1]+"$", []string{"VERIF_TIER=" + tier}, 300*time.Second)
		ran := false
		for _, ln := range strings.Split(out, "\n") {
			if i := strings.Index(ln, "FAILING-INPUT "); i >= 0 {
				failing = append(failing, strings.TrimSpace(ln[i:]))
			}
			if i := strings.Index(ln, "BOUNDED "); i >= 0 {
				summary = append(summary, strings.TrimSpace(ln[i:]))
				ran = true
			}
		}
		if !ran {
			failing = append(failing, "bounded stand-in "+one+" did not run: "+trunc(strings.ReplaceAll(tail(out, 300), "\n", " | "), 300))
		}
	}
	return
}

// noteReplay copies the outcome of the search already run for another obligation of the same check into a replay file.
func noteReplay(path string, confirmed bool, detail string) {
	var rec map[string]interface{}
	if data, err := os.ReadFile(path); err == nil {
		json.Unmarshal(data, &rec)
	}
	if rec == nil {
		rec = map[string]interface{}{}
	}
	rec["replay_confirmed"] = confirmed
	if detail != "" {
		rec["failing_inputs"] = []string{detail}
	}
	rec["replay_note"] = "same search as for the first failing obligation of this run"
	data, _ := json.MarshalIndent(rec, "", " ")
	os.WriteFile(path, data, 0o644)
}
