package main

// Syntactic scans that back the determinism property (C17) and the subset restrictions of DESIGN.md 3.2.

import (
	"fmt"
	"go/types"
	"sort"
	"strings"

	"golang.org/x/tools/go/ssa"
)

type scanResult struct {
	Name   string
	OK     bool
	Detail string
}

var corePkgs = map[string]bool{"lexer": true, "parser": true, "emitter": true, "token": true, "ast": true}

func (e *Engine) scanDeterminism() []scanResult {
	var out []scanResult
	// 1. no package-level variable is written outside package initialisation
	gw := e.globalsWritten(corePkgs)
	out = append(out, scanResult{"scan[C17:globals]", len(gw) == 0, "package-level variables written outside init: " + strings.Join(gw, "; ")})
	gs := e.globalStateUses(corePkgs)
	out = append(out, scanResult{"scan[C17:global-state]", len(gs) == 0, "package-level variables whose address escapes or whose referent is updated or handed out, outside init: " + strings.Join(gs, "; ")})
	// 2. no goroutines, channels, select, defer/recover, time, randomness, address printing
	var bad []string
	var mapRanges []string
	for _, fn := range e.allFns {
		if fn.Pkg == nil || !corePkgs[fn.Pkg.Pkg.Name()] {
			continue
		}
		for _, b := range fn.Blocks {
			for _, ins := range b.Instrs {
				switch i := ins.(type) {
				case *ssa.Go, *ssa.Select, *ssa.Send:
					bad = append(bad, fmt.Sprintf("%s: %T", e.keyOf[fn], ins))
				case *ssa.Defer:
					bad = append(bad, fmt.Sprintf("%s: defer", e.keyOf[fn]))
				case *ssa.Range:
					if _, ok := i.X.Type().Underlying().(*types.Map); ok {
						mapRanges = append(mapRanges, e.keyOf[fn])
					}
				case ssa.CallInstruction:
					if sc := i.Common().StaticCallee(); sc != nil && sc.Pkg != nil {
						p := sc.Pkg.Pkg.Path()
						if p == "time" || p == "math/rand" || p == "crypto/rand" || p == "os" && (sc.Name() == "Getenv" || sc.Name() == "Getpid") {
							bad = append(bad, fmt.Sprintf("%s calls %s", e.keyOf[fn], sc.String()))
						}
					}
				}
			}
		}
	}
	sort.Strings(bad)
	out = append(out, scanResult{"scan[C17:no-hidden-inputs]", len(bad) == 0, "goroutines / channels / defer / time / randomness / environment: " + strings.Join(bad, "; ")})
	// 3. every iteration over a map sits in a function whose contract has a C17-labelled clause
	//    (order-independent postcondition or invariant), see DESIGN.md 6 C17
	sort.Strings(mapRanges)
	var uncovered []string
	seen := map[string]bool{}
	for _, k := range mapRanges {
		if seen[k] {
			continue
		}
		seen[k] = true
		fc := e.cs.Funcs[k]
		if fc == nil || !fc.propsOf()["C17"] {
			uncovered = append(uncovered, k)
		}
	}
	out = append(out, scanResult{"scan[C17:map-range]", len(uncovered) == 0, fmt.Sprintf("functions iterating over a map: %v; without a C17 clause: %v", keysOf(seen), uncovered)})
	return out
}

func keysOf(m map[string]bool) []string {
	var out []string
	for k := range m {
		out = append(out, k)
	}
	sort.Strings(out)
	return out
}

// scanAstImmutable: no function of package emitter writes a field of package ast (DESIGN.md 3.4).
func (e *Engine) scanAstImmutable() scanResult {
	var bad []string
	for _, fn := range e.allFns {
		if fn.Pkg == nil || fn.Pkg.Pkg.Name() != "emitter" {
			continue
		}
		for k := range e.modsets[fn] {
			if strings.HasPrefix(k, "H.ast.") || strings.HasPrefix(k, "H.token.") {
				bad = append(bad, e.keyOf[fn]+" may write "+k)
			}
		}
	}
	sort.Strings(bad)
	return scanResult{"scan[ast-immutable-in-emitter]", len(bad) == 0, strings.Join(bad, "; ")}
}

// globalStateUses: uses of package-level variables of the core packages, outside package initialisation, that
// could make them carry state from one compilation to the next without being a direct store (those are found by
// globalsWritten): the address of the variable escaping into a call or another location, and a reference value
// (map, pointer, slice) loaded from the variable being updated in place or handed to a callee that is not on the
// short list of read-only library methods.
func (e *Engine) globalStateUses(pkgs map[string]bool) []string {
	seen := map[string]bool{}
	readOnlyCallee := func(c *ssa.CallCommon) bool {
		if sc := c.StaticCallee(); sc != nil && sc.Pkg != nil {
			p := sc.Pkg.Pkg.Path()
			if p == "regexp" { // *regexp.Regexp is immutable after MustCompile as far as results go (A-regexp)
				return true
			}
		}
		if b, ok := c.Value.(*ssa.Builtin); ok {
			switch b.Name() {
			case "len", "cap":
				return true
			}
		}
		return false
	}
	isRef := func(t types.Type) bool {
		switch t.Underlying().(type) {
		case *types.Map, *types.Pointer, *types.Slice, *types.Chan, *types.Signature, *types.Interface:
			return true
		}
		return false
	}
	for _, fn := range e.allFns {
		if fn.Pkg == nil || !pkgs[fn.Pkg.Pkg.Name()] || fn.Name() == "init" {
			continue
		}
		// values derived from a global: address-of (the Global itself, FieldAddr/IndexAddr of it) and loaded references
		addr := map[ssa.Value]string{}
		ref := map[ssa.Value]string{}
		note := func(g string, what string) { seen[g+": "+what+" (in "+e.keyOf[fn]+")"] = true }
		gname := func(v ssa.Value) (string, bool) {
			if g, ok := v.(*ssa.Global); ok && g.Pkg != nil && pkgs[g.Pkg.Pkg.Name()] {
				return g.Pkg.Pkg.Name() + "." + g.Name(), true
			}
			if n, ok := addr[v]; ok {
				return n, true
			}
			return "", false
		}
		for pass := 0; pass < 3; pass++ { // derived values settle in a few passes over the blocks
			for _, b := range fn.Blocks {
				for _, ins := range b.Instrs {
					switch i := ins.(type) {
					case *ssa.FieldAddr:
						if n, ok := gname(i.X); ok {
							addr[i] = n
						} else if n, ok := ref[i.X]; ok {
							addr[i] = n
						}
					case *ssa.IndexAddr:
						if n, ok := gname(i.X); ok {
							addr[i] = n
						} else if n, ok := ref[i.X]; ok {
							addr[i] = n
						}
					case *ssa.UnOp:
						if i.Op.String() == "*" {
							if n, ok := gname(i.X); ok && isRef(i.Type()) {
								ref[i] = n
							}
						}
					case *ssa.Phi:
						for _, ed := range i.Edges {
							if n, ok := ref[ed]; ok {
								ref[i] = n
							}
						}
					case *ssa.ChangeType:
						if n, ok := ref[i.X]; ok {
							ref[i] = n
						}
					case *ssa.Slice:
						if n, ok := ref[i.X]; ok {
							ref[i] = n
						}
					}
				}
			}
		}
		for _, b := range fn.Blocks {
			for _, ins := range b.Instrs {
				switch i := ins.(type) {
				case *ssa.Store:
					if n, ok := addr[i.Addr]; ok {
						note(n, "updated in place")
					}
					if n, ok := gname(i.Val); ok {
						note(n, "address stored")
					}
				case *ssa.MapUpdate:
					if n, ok := ref[i.Map]; ok {
						note(n, "map updated in place")
					}
				case ssa.CallInstruction:
					c := i.Common()
					if readOnlyCallee(c) {
						continue
					}
					if b, ok := c.Value.(*ssa.Builtin); ok && (b.Name() == "delete" || b.Name() == "append" || b.Name() == "copy" || b.Name() == "clear") {
						if len(c.Args) > 0 {
							if n, ok := ref[c.Args[0]]; ok && b.Name() != "append" {
								note(n, b.Name()+" on it")
							}
						}
						continue
					}
					ops := append([]ssa.Value{}, c.Args...)
					if c.IsInvoke() {
						ops = append(ops, c.Value)
					}
					for _, a := range ops {
						if n, ok := gname(a); ok {
							note(n, "address passed to "+calleeName(c))
						}
						if n, ok := ref[a]; ok {
							if _, isMap := a.Type().Underlying().(*types.Map); isMap || true {
								note(n, "reference passed to "+calleeName(c))
							}
						}
					}
				case *ssa.MakeInterface:
					if n, ok := gname(i.X); ok {
						note(n, "address boxed")
					}
				case *ssa.MakeClosure:
					for _, bd := range i.Bindings {
						if n, ok := gname(bd); ok {
							note(n, "address captured")
						}
					}
				}
			}
		}
	}
	var out []string
	for k := range seen {
		out = append(out, k)
	}
	sort.Strings(out)
	return out
}

func calleeName(c *ssa.CallCommon) string {
	if sc := c.StaticCallee(); sc != nil {
		return sc.String()
	}
	if c.IsInvoke() {
		return c.Method.Name()
	}
	return "a function value"
}
