package main

// Syntactic scans that back the determinism property (C17) and the subset restrictions of DESIGN.md 3.2.

import (
	"fmt"
	"go/types"
	"sort"
	"strings"

	"golang.org/x/tools/go/ssa"
)

type scanResult struct {
	Name   string
	OK     bool
	Detail string
}

var corePkgs = map[string]bool{"lexer": true, "parser": true, "emitter": true, "token": true, "ast": true}

func (e *Engine) scanDeterminism() []scanResult {
	var out []scanResult
	// 1. no package-level variable is written outside package initialisation
	gw := e.globalsWritten(corePkgs)
	out = append(out, scanResult{"scan[C17:globals]", len(gw) == 0, "package-level variables written outside init: " + strings.Join(gw, "; ")})
	// 2. no goroutines, channels, select, defer/recover, time, randomness, address printing
	var bad []string
	var mapRanges []string
	for _, fn := range e.allFns {
		if fn.Pkg == nil || !corePkgs[fn.Pkg.Pkg.Name()] {
			continue
		}
		for _, b := range fn.Blocks {
			for _, ins := range b.Instrs {
				switch i := ins.(type) {
				case *ssa.Go, *ssa.Select, *ssa.Send:
					bad = append(bad, fmt.Sprintf("%s: %T", e.keyOf[fn], ins))
				case *ssa.Defer:
					bad = append(bad, fmt.Sprintf("%s: defer", e.keyOf[fn]))
				case *ssa.Range:
					if _, ok := i.X.Type().Underlying().(*types.Map); ok {
						mapRanges = append(mapRanges, e.keyOf[fn])
					}
				case ssa.CallInstruction:
					if sc := i.Common().StaticCallee(); sc != nil && sc.Pkg != nil {
						p := sc.Pkg.Pkg.Path()
						if p == "time" || p == "math/rand" || p == "crypto/rand" || p == "os" && (sc.Name() == "Getenv" || sc.Name() == "Getpid") {
							bad = append(bad, fmt.Sprintf("%s calls %s", e.keyOf[fn], sc.String()))
						}
					}
				}
			}
		}
	}
	sort.Strings(bad)
	out = append(out, scanResult{"scan[C17:no-hidden-inputs]", len(bad) == 0, "goroutines / channels / defer / time / randomness / environment: " + strings.Join(bad, "; ")})
	// 3. every iteration over a map sits in a function whose contract has a C17-labelled clause
	//    (order-independent postcondition or invariant), see DESIGN.md 6 C17
	sort.Strings(mapRanges)
	var uncovered []string
	seen := map[string]bool{}
	for _, k := range mapRanges {
		if seen[k] {
			continue
		}
		seen[k] = true
		fc := e.cs.Funcs[k]
		if fc == nil || !fc.propsOf()["C17"] {
			uncovered = append(uncovered, k)
		}
	}
	out = append(out, scanResult{"scan[C17:map-range]", len(uncovered) == 0, fmt.Sprintf("functions iterating over a map: %v; without a C17 clause: %v", keysOf(seen), uncovered)})
	return out
}

func keysOf(m map[string]bool) []string {
	var out []string
	for k := range m {
		out = append(out, k)
	}
	sort.Strings(out)
	return out
}

// scanAstImmutable: no function of package emitter writes a field of package ast (DESIGN.md 3.4).
func (e *Engine) scanAstImmutable() scanResult {
	var bad []string
	for _, fn := range e.allFns {
		if fn.Pkg == nil || fn.Pkg.Pkg.Name() != "emitter" {
			continue
		}
		for k := range e.modsets[fn] {
			if strings.HasPrefix(k, "H.ast.") || strings.HasPrefix(k, "H.token.") {
				bad = append(bad, e.keyOf[fn]+" may write "+k)
			}
		}
	}
	sort.Strings(bad)
	return scanResult{"scan[ast-immutable-in-emitter]", len(bad) == 0, strings.Join(bad, "; ")}
}
