package main

// Must-fail corpus (thorough tier): every seeded change kept under /verif/seeded for the property is applied to a
// scratch copy of the working tree (outside /repo and /verif, removed afterwards) and the same check is run on it;
// a check that does not report the change is a hole in the check, recorded in the evidence and printed loudly.
// This guards against vacuity of the whole pipeline (contradictory preconditions, lost obligations, a generator
// that stopped looking at the code).

import (
	"encoding/json"
	"fmt"
	"os"
	"os/exec"
	"path/filepath"
	"sort"
	"strings"
)

type mutantResult struct {
	Seed       string   `json:"seed"`
	Detected   bool     `json:"detected"`
	By         []string `json:"reported_obligations"`
	ExpectedBy []string `json:"expected_obligations"`
	Note       string   `json:"note,omitempty"`
}

func runMutants(repo, verif, prop string, timeout int) []mutantResult {
	return runPatched(repo, verif, prop, timeout, filepath.Join(verif, "seeded", "*", "meta.json"))
}

// runMustPass: behaviour-preserving refactorings kept under seeded/benign must NOT be reported (false-alarm guard).
func runMustPass(repo, verif, prop string, timeout int) []mutantResult {
	return runPatched(repo, verif, prop, timeout, filepath.Join(verif, "seeded", "benign", "*", "meta.json"))
}

func runPatched(repo, verif, prop string, timeout int, glob string) []mutantResult {
	metas, _ := filepath.Glob(glob)
	sort.Strings(metas)
	var out []mutantResult
	for _, mf := range metas {
		data, err := os.ReadFile(mf)
		if err != nil {
			continue
		}
		var meta struct {
			Property   string   `json:"property"`
			DetectedBy []string `json:"detected_by"`
		}
		if json.Unmarshal(data, &meta) != nil || meta.Property != prop {
			continue
		}
		seed := filepath.Base(filepath.Dir(mf))
		res := mutantResult{Seed: seed, ExpectedBy: meta.DetectedBy}
		patch := filepath.Join(filepath.Dir(mf), "patch.diff")
		tmp, err := os.MkdirTemp("", "govc-mutant-")
		if err != nil {
			res.Note = err.Error()
			out = append(out, res)
			continue
		}
		func() {
			defer os.RemoveAll(tmp)
			work := filepath.Join(tmp, "repo")
			if b, err := exec.Command("rsync", "-a", "--exclude", ".git", repo+"/", work+"/").CombinedOutput(); err != nil {
				res.Note = "copy failed: " + trunc(string(b), 200)
				return
			}
			cmd := exec.Command("patch", "-p1", "-s", "-i", patch)
			cmd.Dir = work
			if b, err := cmd.CombinedOutput(); err != nil {
				res.Note = "patch does not apply to the current tree: " + trunc(string(b), 200)
				return
			}
			mv := filepath.Join(tmp, "verif")
			os.MkdirAll(mv, 0o755)
			// a scratch verification directory: same specs, contracts baseline, harnesses and known findings; its own
			// evidence and replays (thrown away)
			for _, d := range []string{"spec", "harness"} {
				exec.Command("rsync", "-a", filepath.Join(verif, d)+"/", filepath.Join(mv, d)+"/").Run()
			}
			for _, f := range []string{"obligations.baseline.json", "names.baseline.json", "known_findings.json"} {
				if b, err := os.ReadFile(filepath.Join(verif, f)); err == nil {
					os.MkdirAll(mv, 0o755)
					os.WriteFile(filepath.Join(mv, f), b, 0o644)
				}
			}
			args := []string{"check", "-repo", work, "-verif", mv, "-property", prop, "-tier", "quick"}
			if timeout > 0 {
				args = append(args, "-timeout", fmt.Sprint(timeout))
			}
			c := exec.Command(os.Args[0], args...)
			c.Env = append(goEnv(), "GOVC_MUTANT=1")
			b, _ := c.CombinedOutput()
			if dbg := os.Getenv("GOVC_MUTANT_DEBUG"); dbg != "" {
				os.WriteFile(filepath.Join(dbg, seed+".out"), b, 0o644)
			}
			for _, ln := range strings.Split(string(b), "\n") {
				if strings.HasPrefix(ln, "VIOLATION property="+prop+" ") {
					res.Detected = true
					if i := strings.Index(ln, "obligation="); i >= 0 {
						f := strings.Fields(ln[i+len("obligation="):])
						if len(f) > 0 && len(res.By) < 6 {
							res.By = append(res.By, f[0])
						}
					} else if strings.Contains(ln, "bounded-stand-in") && len(res.By) < 6 {
						res.By = append(res.By, "bounded stand-in")
					}
				}
			}
			if !res.Detected {
				res.Note = "not reported: " + trunc(strings.ReplaceAll(tail(string(b), 300), "\n", " | "), 300)
			}
		}()
		out = append(out, res)
	}
	return out
}
