package main

import (
	"go/token"
	"fmt"
	"go/types"
	"sort"
	"strings"

	"golang.org/x/tools/go/ssa"
)

// headerRangeCell finds the rangeindex cell / iterator of the loop whose header is li.header.
func (f *Frame) headerRange(li *loopInfo) (*ssa.Alloc, ssa.Value) {
	for _, ins := range li.header.Instrs {
		switch i := ins.(type) {
		case *ssa.Store:
			if a, ok := i.Addr.(*ssa.Alloc); ok && a.Comment == "rangeindex" {
				return a, nil
			}
		case *ssa.Next:
			return nil, i.Iter
		}
	}
	return nil, nil
}

func (f *Frame) loopEval(li *loopInfo, st *State, reach string) *EvalCtx {
	ev := f.evalCtx(st, reach)
	ev.inLoop = true
	// innermost enclosing loop (for outer(...))
	var parent *loopInfo
	for _, cand := range f.loops {
		if cand != li && cand.blocks[li.header] {
			if parent == nil || len(cand.blocks) < len(parent.blocks) {
				parent = cand
			}
		}
	}
	if parent == nil {
		// the innermost loop of a caller that contains the call
		for g := f; parent == nil && g.up != nil; g = g.up {
			for _, cand := range g.up.loops {
				if cand.blocks[g.upBlk] {
					if parent == nil || len(cand.blocks) < len(parent.blocks) {
						parent = cand
					}
				}
			}
		}
	}
	if parent != nil && parent.hdrState != nil {
		ev.outer = parent.hdrState
	}
	ev.pre = li.preState
	ri, it := f.headerRange(li)
	if ri != nil {
		if v, ok := st.cells[ri]; ok {
			ev.vars["$i"] = SVal{T: "(+ " + v.T + " 1)", S: "Int"}
		}
	}
	if it != nil {
		if v, ok := st.iters[it]; ok {
			if v.S == "Int" {
				ev.vars["$pos"] = SVal{T: v.T, S: "Int"}
			} else {
				ev.vars["$visited"] = SVal{T: v.T, S: v.S}
				if len(v.Tup) == 1 {
					ev.vars["$n"] = SVal{T: v.Tup[0].T, S: "Int"}
				}
			}
		}
	}
	return ev
}

func (f *Frame) loopName(li *loopInfo) string { return fmt.Sprintf("loop%d", li.ordinal) }

func (f *Frame) enterLoop(li *loopInfo, cur *State, r string) (*State, string) {
	c := f.c
	li.preState = cur.clone()
	// 1. invariants on entry
	if li.lc != nil {
		ev := f.loopEval(li, cur, r)
		for _, u := range li.lc.Uses {
			if !strings.Contains(u.Text, "prev(") {
				ev.useAxiom(u)
			}
		}
		for _, inv := range li.lc.Invariants {
			g, err := c.skolemGoal(inv.Expr, ev, r)
			if err != nil {
				c.errorf("%s: invariant %s: %v", inv.Where, inv.Tag(), err)
				f.unbound("inv-init"+inv.Tag()+"/"+f.loopName(li), inv, err)
				continue
			}
			f.oblige("inv-init"+inv.Tag()+"/"+f.loopName(li), inv, r, g)
		}
	}
	ri, _ := f.headerRange(li)
	if ri != nil {
		if v, ok := cur.cells[ri]; ok {
			f.oblige("inv-init[auto:rangeindex]/"+f.loopName(li), nil, r, "(<= (- 1) "+v.T+")")
		}
	}
	// 2. snapshot
	li.entryNext = c.nextRef(cur)
	li.entryHeap = map[string]string{}
	var keys []string
	for k := range li.modKeys {
		if strings.HasPrefix(k, "G.") {
			if _, ok := c.eng.heapSort[k]; !ok {
				continue
			}
		}
		keys = append(keys, k)
	}
	sort.Strings(keys)
	for _, k := range keys {
		li.entryHeap[k] = c.heapTerm(cur, k)
	}
	// objects the loop may modify (object-granular frame), evaluated at loop entry
	hasMod := li.lc != nil && len(li.lc.Modifies) > 0
	if hasMod {
		ev := f.loopEval(li, cur, r)
		objs, err := ev.modifiesObjects(li.lc.Modifies)
		if err != nil {
			c.errorf("loop modifies: %v", err)
		}
		li.objs = objs
	}
	// function-level frame as an automatic loop invariant
	if f.topFrame().hasFrame {
		n0 := c.nextRef(f.topFrame().entry)
		for _, k := range keys {
			g := c.frameGoal(k, c.heapTerm(f.topFrame().entry, k), c.heapTerm(cur, k), n0, f.topFrame().fnObjs[k])
			if g != "true" {
				f.oblige("inv-init[frame:"+k+"]/"+f.loopName(li), nil, r, g)
			}
		}
	}
	// 3. havoc
	st := cur.clone()
	rh := c.fresh(fmt.Sprintf("rh.%d.%d", f.id, li.header.Index), "Bool")
	c.fact("(=> " + rh + " " + r + ")")
	var cells []*ssa.Alloc
	for a := range li.modCells {
		cells = append(cells, a)
	}
	sort.Slice(cells, func(i, j int) bool { return cells[i].Name() < cells[j].Name() })
	for _, a := range cells {
		v, ok := st.cells[a]
		if !ok || v.T == "" {
			continue
		}
		nv := Val{T: c.fresh("lv."+a.Comment, v.S), S: v.S, GT: v.GT}
		st.cells[a] = nv
	}
	for it := range li.modIters {
		if v, ok := st.iters[it]; ok {
			nv := v
			nv.T = c.fresh("it", v.S)
			if len(v.Tup) == 1 {
				cn := c.fresh("itn", "Int")
				c.assume(rh, "(<= 0 "+cn+")")
				nv.Tup = []Val{tv(cn, "Int")}
			}
			st.iters[it] = nv
			if v.S == "Int" {
				// string iterator position stays within the string
				x := f.val(it.(*ssa.Range).X)
				c.assume(rh, "(and (<= 0 "+nv.T+") (<= "+nv.T+" (slen "+x.T+")))")
			}
		}
	}
	if li.allocs {
		nr := c.fresh("nextRef", "Int")
		c.assume(rh, "(<= "+li.entryNext+" "+nr+")")
		st.nextRef = nr
	}
	for _, k := range keys {
		nh := c.fresh("lh."+k, "(Array Int "+c.eng.heapSort[k]+")")
		st.heap[k] = nh
		if hasMod {
			c.assume(rh, c.frameFormula(k, li.entryHeap[k], nh, li.entryNext, li.objs[k]))
		}
		if f.topFrame().hasFrame {
			c.assume(rh, c.frameFormula(k, c.heapTerm(f.topFrame().entry, k), nh, c.nextRef(f.topFrame().entry), f.topFrame().fnObjs[k]))
		}
	}
	// a variable that lives on the heap only because a closure reads it, and that is written exactly once (where it
	// is declared), keeps its value: nobody else has its address
	for _, a := range f.writeOnceBoxes() {
		ref, ok := f.regs[a]
		if !ok || !li.header.Dominates(li.header) {
			continue
		}
		if a.Block() == nil || !a.Block().Dominates(li.header) || li.blocks[a.Block()] {
			continue
		}
		k := c.eng.boxKey(a.Type().(*types.Pointer).Elem())
		if old, ok := li.entryHeap[k]; ok {
			c.assume(rh, "(= (select "+st.heap[k]+" "+ref.T+") (select "+old+" "+ref.T+"))")
		}
	}
	// ghost variables that a call in the loop body may change (through a contract's modifies / defines) are havocked too
	for _, gname := range f.loopGhosts(li) {
		gv := c.eng.cs.Ghosts[gname]
		s, _ := c.eng.resolveType(gv.Pkg, gv.Type)
		st.ghosts[gname] = c.fresh("lg."+gname, s)
	}
	// typing of havocked cells
	for _, a := range cells {
		if v, ok := st.cells[a]; ok && v.T != "" {
			c.assumeTyped(st, rh, v, a.Type().(*types.Pointer).Elem())
		}
	}
	if ri != nil {
		if v, ok := st.cells[ri]; ok {
			c.assume(rh, "(<= (- 1) "+v.T+")")
		}
	}
	// 4. assume invariants
	if li.lc != nil {
		ev := f.loopEval(li, st, rh)
		for _, inv := range li.lc.Invariants {
			g, err := ev.evalBool(inv.Expr)
			if err != nil {
				continue
			}
			c.curTag = inv.Label
			c.assume(rh, g)
			c.noteHyp(inv.Expr, ev, rh)
			c.curTag = ""
		}
		for _, u := range li.lc.Uses {
			if !strings.Contains(u.Text, "prev(") {
				ev.useAxiom(u)
			}
		}
		if dec := f.loopDecr(li); dec != nil {
			li.variant0 = nil
			for _, e := range dec.Exprs {
				v, err := ev.eval(e)
				if err != nil {
					c.errorf("%s: decreases: %v", dec.Where, err)
					continue
				}
				li.variant0 = append(li.variant0, v.T)
			}
		}
	}
	if f.loopDecr(li) == nil {
		if ri2, it2 := f.headerRange(li); ri2 == nil && it2 == nil {
			c.noVariant = append(c.noVariant, fmt.Sprintf("%s/%s", c.key, f.loopName(li)))
		}
	}
	li.hdrState = st.clone()
	return st, rh
}

// frameFormula: forall o. allocated-before(o) && o not in objs ==> new[o] == old[o]
func (c *Ctx) frameFormula(key, oldH, newH, nextRef string, objs []string) string {
	if oldH == newH {
		return "true"
	}
	conds := []string{"(<= 0 o!)", "(< o! " + nextRef + ")"}
	for _, o := range objs {
		if o == "*" {
			return "true"
		}
		conds = append(conds, "(not (= o! "+o+"))")
	}
	return "(forall ((o! Int)) (! (=> (and " + strings.Join(conds, " ") + ") (= (select " + newH + " o!) (select " + oldH + " o!))) :pattern ((select " + newH + " o!))))"
}

// frameGoal: same formula with a skolem constant (for proving)
func (c *Ctx) frameGoal(key, oldH, newH, nextRef string, objs []string) string {
	if oldH == newH {
		return "true"
	}
	c.skolems++
	o := c.declare(fmt.Sprintf("sk.o!%d", c.skolems), "Int")
	conds := []string{"(<= 0 " + o + ")", "(< " + o + " " + nextRef + ")"}
	for _, ob := range objs {
		if ob == "*" {
			return "true"
		}
		conds = append(conds, "(not (= "+o+" "+ob+"))")
	}
	return "(=> (and " + strings.Join(conds, " ") + ") (= (select " + newH + " " + o + ") (select " + oldH + " " + o + ")))"
}

func (f *Frame) closeLoop(li *loopInfo, st *State, cond string) {
	c := f.c
	if li.lc != nil {
		ev := f.loopEval(li, st, cond)
		{
			uev := *ev
			uev.prev = li.hdrState
			for _, u := range li.lc.Uses {
				uev.useAxiom(u)
			}
		}
		for _, inv := range li.lc.Invariants {
			g, err := c.skolemGoal(inv.Expr, ev, cond)
			if err != nil {
				c.errorf("%s: invariant %s at back edge: %v", inv.Where, inv.Tag(), err)
				f.unbound("inv-keep"+inv.Tag()+"/"+f.loopName(li), inv, err)
				continue
			}
			if inv.Split > 0 {
				if pcs := f.pathConds(c.curBlk, inv.Split); len(pcs) > 1 {
					for k, pc := range pcs {
						if ob := f.oblige(fmt.Sprintf("inv-keep%s/%s@path%d", inv.Tag(), f.loopName(li), k+1), inv, "(and "+cond+" "+pc.cond+")", g); ob != nil {
							ob.PathTail = pc.tail
							ob.PathBlocks = map[*ssa.BasicBlock]bool{}
							for _, pb := range pc.blocks {
								ob.PathBlocks[pb] = true
							}
						}
					}
					continue
				}
			}
			f.oblige("inv-keep"+inv.Tag()+"/"+f.loopName(li), inv, cond, g)
		}
		for _, tr := range li.lc.Transitions {
			tev := *ev
			tev.prev = li.hdrState
			tev.loopBlocks = li.blocks
			tev.prevVars = map[string]SVal{}
			for k, v := range f.loopEval(li, li.hdrState, cond).vars {
				if strings.HasPrefix(k, "$") {
					tev.prevVars[k] = v
				}
			}
			g, err := tev.evalBool(tr.Expr)
			if err != nil {
				c.errorf("%s: transition %s: %v", tr.Where, tr.Tag(), err)
				f.unbound("transition"+tr.Tag()+"/"+f.loopName(li), tr, err)
				continue
			}
			f.oblige("transition"+tr.Tag()+"/"+f.loopName(li), tr, cond, g)
		}
		if dec := f.loopDecr(li); dec != nil && len(li.variant0) > 0 {
			var now []string
			ok := true
			for _, e := range dec.Exprs {
				v, err := ev.eval(e)
				if err != nil {
					ok = false
					break
				}
				now = append(now, v.T)
			}
			if ok {
				goal := lexLess(now, li.variant0)
				if ta := f.topFrame().fc.TermAssume; ta != nil {
					// the variants are proved under the function's termination hypothesis (termassume)
					if a, err := ev.evalBool(ta.Expr); err == nil {
						goal = "(=> " + a + " " + goal + ")"
					} else {
						c.errorf("%s: termassume: %v", ta.Where, err)
					}
				}
				f.oblige("variant"+dec.Tag()+"/"+f.loopName(li), dec, cond, goal)
			}
		}
		if len(li.lc.Modifies) > 0 {
			var keys []string
			for k := range li.entryHeap {
				keys = append(keys, k)
			}
			sort.Strings(keys)
			for _, k := range keys {
				g := c.frameGoal(k, li.entryHeap[k], c.heapTerm(st, k), li.entryNext, li.objs[k])
				if g != "true" {
					f.oblige("inv-keep[frame:"+k+"]/"+f.loopName(li), nil, cond, g)
				}
			}
		}
	}
	if f.topFrame().hasFrame {
		var keys []string
		for k := range li.entryHeap {
			keys = append(keys, k)
		}
		sort.Strings(keys)
		n0 := c.nextRef(f.topFrame().entry)
		// one obligation per back edge: the conjunction over the heap keys the loop may change
		var fgoals, fkeys []string
		for _, k := range keys {
			g := c.frameGoal(k, c.heapTerm(f.topFrame().entry, k), c.heapTerm(st, k), n0, f.topFrame().fnObjs[k])
			if g != "true" {
				fgoals = append(fgoals, g)
				fkeys = append(fkeys, k)
			}
		}
		if len(fgoals) > 0 {
			g := fgoals[0]
			if len(fgoals) > 1 {
				g = "(and " + strings.Join(fgoals, " ") + ")"
			}
			if ob := f.oblige("inv-keep[fnframe]/"+f.loopName(li), nil, cond, g); ob != nil {
				ob.Clause = "the function frame holds at the back edge for: " + strings.Join(fkeys, ", ")
			}
		}
	}
	ri, _ := f.headerRange(li)
	if ri != nil {
		if v, ok := st.cells[ri]; ok {
			f.oblige("inv-keep[auto:rangeindex]/"+f.loopName(li), nil, cond, "(<= (- 1) "+v.T+")")
		}
	}
}

// lexLess: now < v0 lexicographically, each component bounded below by 0
func lexLess(now, v0 []string) string {
	if len(now) == 0 {
		return "false"
	}
	if len(now) == 1 {
		return "(and (<= 0 " + v0[0] + ") (< " + now[0] + " " + v0[0] + "))"
	}
	return "(or (and (<= 0 " + v0[0] + ") (< " + now[0] + " " + v0[0] + ")) (and (= " + now[0] + " " + v0[0] + ") " + lexLess(now[1:], v0[1:]) + "))"
}

// unbound records a clause whose expression could not be bound to the current code.
func (f *Frame) unbound(kind string, cl *Clause, err error) {
	ob := f.oblige(kind, cl, "true", "false")
	if ob != nil {
		ob.Result = "unbound"
		ob.Model = err.Error()
	}
}

// loopDecr: the variant of a loop: its own decreases clause, else the function's default (loopdecr, from a template)
// unless the loop ranges over a slice, string or map (those end by construction).
func (f *Frame) loopDecr(li *loopInfo) *Clause {
	if li.lc != nil && li.lc.Decreases != nil {
		return li.lc.Decreases
	}
	tfc := f.topFrame().fc
	if tfc == nil || tfc.LoopDecr == nil || li.lc == nil {
		return nil
	}
	if ri, it := f.headerRange(li); ri != nil || it != nil {
		return nil
	}
	return tfc.LoopDecr
}

// loopGhosts: ghost variables a call inside the loop may change. Conservative: every declared ghost that some contract
// reachable from a call in the loop names in a modifies or defines clause; a call through a function value or to a
// function without contract that is not inlined counts for all ghosts.
func (f *Frame) loopGhosts(li *loopInfo) []string {
	c := f.c
	if len(c.eng.cs.Ghosts) == 0 {
		return nil
	}
	set := map[string]bool{}
	all := func() {
		for g := range c.eng.cs.Ghosts {
			set[g] = true
		}
	}
	seen := map[*ssa.Function]bool{}
	var walk func(g *ssa.Function, blocks []*ssa.BasicBlock)
	addContract := func(fc *FuncContract) {
		for _, cl := range fc.Modifies {
			for _, e := range cl.Exprs {
				if e.Op == "ident" {
					if _, ok := c.eng.cs.Ghosts[e.Name]; ok {
						set[e.Name] = true
					}
				}
			}
		}
		for _, df := range fc.GhostDefs {
			if df.Expr != nil && df.Expr.Op == "binary" && df.Expr.Args[0].Op == "ident" {
				set[df.Expr.Args[0].Name] = true
			}
		}
	}
	walk = func(g *ssa.Function, blocks []*ssa.BasicBlock) {
		for _, b := range blocks {
			for _, ins := range b.Instrs {
				ci, ok := ins.(ssa.CallInstruction)
				if !ok {
					continue
				}
				com := ci.Common()
				if _, isB := com.Value.(*ssa.Builtin); isB {
					continue
				}
				sc := com.StaticCallee()
				if sc == nil {
					// a call through a function-valued parameter is governed by that parameter's contract
					handled := false
					if pname := paramNameOf(com.Value); pname != "" {
						if fc := c.eng.cs.Funcs[c.eng.keyOf[g]]; fc != nil {
							if tk, ok := fc.FnParams[pname]; ok {
								if t := c.eng.cs.Funcs[tk]; t != nil {
									addContract(t)
									for _, inc := range t.Includes {
										if t2 := c.eng.cs.Funcs[inc]; t2 != nil {
											addContract(t2)
										}
									}
									handled = true
								}
							}
						}
					}
					if !handled && com.IsInvoke() {
						// interface method: the union of the contracts of that name (interface contract and implementations)
						suffix := "." + com.Method.Name()
						for k, fc := range c.eng.cs.Funcs {
							if strings.HasSuffix(k, suffix) {
								addContract(fc)
								handled = true
							}
						}
					}
					if !handled {
						all()
					}
					continue
				}
				if k, ok := c.eng.keyOf[sc]; ok && c.eng.cs.Funcs[k] != nil {
					fc := c.eng.cs.Funcs[k]
					addContract(fc)
					for _, inc := range fc.Includes {
						if t := c.eng.cs.Funcs[inc]; t != nil {
							addContract(t)
						}
					}
					continue
				}
				if sc.Blocks != nil && sc.Pkg != nil && corePkgs[sc.Pkg.Pkg.Name()] && !seen[sc] {
					seen[sc] = true
					walk(sc, sc.Blocks)
				}
			}
		}
	}
	var blocks []*ssa.BasicBlock
	for b := range li.blocks {
		blocks = append(blocks, b)
	}
	walk(f.fn, blocks)
	var out []string
	for g := range set {
		out = append(out, g)
	}
	sort.Strings(out)
	return out
}

// paramNameOf: the name of the function parameter a called value comes from (directly, or loaded from the cell the
// naive SSA form spills it to); "" otherwise.
func paramNameOf(v ssa.Value) string {
	switch x := v.(type) {
	case *ssa.Parameter:
		return x.Name()
	case *ssa.UnOp:
		if a, ok := x.X.(*ssa.Alloc); ok && x.Op.String() == "*" {
			for _, prm := range a.Parent().Params {
				if prm.Name() == a.Comment {
					return a.Comment
				}
			}
		}
	}
	return ""
}


// writeOnceBoxes: heap-allocated scalar variables of the function whose only store is their initialisation and whose
// address is used for nothing but loads, here and in the closures that capture it.
func (f *Frame) writeOnceBoxes() []*ssa.Alloc {
	if f.wobDone {
		return f.wob
	}
	f.wobDone = true
	onlyLoads := func(v ssa.Value, allowStores int) bool {
		stores := 0
		refs := v.Referrers()
		if refs == nil {
			return false
		}
		for _, r := range *refs {
			switch x := r.(type) {
			case *ssa.UnOp:
				if x.Op != token.MUL {
					return false
				}
			case *ssa.Store:
				if x.Addr != v || x.Val == v {
					return false
				}
				stores++
			case *ssa.DebugRef:
			case *ssa.MakeClosure:
				if allowStores == 0 {
					return false // a captured variable captured again: not followed further
				}
			default:
				return false
			}
		}
		return stores <= allowStores
	}
	for _, b := range f.fn.Blocks {
		for _, ins := range b.Instrs {
			a, ok := ins.(*ssa.Alloc)
			if !ok || !a.Heap {
				continue
			}
			et := a.Type().(*types.Pointer).Elem()
			if _, isStruct := et.Underlying().(*types.Struct); isStruct {
				continue
			}
			if _, isArr := et.Underlying().(*types.Array); isArr {
				continue
			}
			if !onlyLoads(a, 1) {
				continue
			}
			ok2 := true
			for _, r := range *a.Referrers() {
				mc, isMC := r.(*ssa.MakeClosure)
				if !isMC {
					continue
				}
				cf, _ := mc.Fn.(*ssa.Function)
				if cf == nil {
					ok2 = false
					break
				}
				for bi, bv := range mc.Bindings {
					if bv != a {
						continue
					}
					if bi >= len(cf.FreeVars) || !onlyLoads(cf.FreeVars[bi], 0) {
						ok2 = false
					}
				}
			}
			if ok2 {
				f.wob = append(f.wob, a)
			}
		}
	}
	return f.wob
}
