package main

// Syntactic, transitive over-approximation of the heap keys a function may write.

import (
	"go/types"
	"sort"
	"strings"

	"golang.org/x/tools/go/ssa"
)

var builderKeys = []string{"H.strings.Builder.pieces", "H.strings.Builder.markers", "H.strings.Builder.nbytes"}

func (e *Engine) structKeys(n *types.Named) []string {
	s, ok := n.Underlying().(*types.Struct)
	if !ok {
		return nil
	}
	var out []string
	for i := 0; i < s.NumFields(); i++ {
		out = append(out, e.heapKeyField(n, s.Field(i).Name(), e.sortOf(s.Field(i).Type())))
	}
	for _, gf := range e.ghostFields[namedKey(n)] {
		out = append(out, "H."+namedKey(n)+"."+gf.Name)
	}
	return out
}

func isLocalRoot(v ssa.Value) bool {
	switch a := v.(type) {
	case *ssa.Alloc:
		return !a.Heap
	case *ssa.FieldAddr:
		return isLocalRoot(a.X)
	case *ssa.IndexAddr:
		if _, ok := a.X.Type().Underlying().(*types.Pointer); ok {
			return isLocalRoot(a.X)
		}
		return false
	}
	return false
}

// rootKeys returns the heap keys written by a store through addr.
func (e *Engine) rootKeys(addr ssa.Value, fn *ssa.Function) []string {
	switch a := addr.(type) {
	case *ssa.Alloc:
		if !a.Heap {
			return nil
		}
		return e.pointeeKeys(a.Type())
	case *ssa.FieldAddr:
		if isLocalRoot(a.X) {
			return nil
		}
		switch a.X.(type) {
		case *ssa.FieldAddr, *ssa.IndexAddr:
			return e.rootKeys(a.X, fn)
		}
		n, s := ptrStruct(a.X.Type())
		if n == nil {
			// pointer to anonymous struct: treat as box
			return e.pointeeKeys(a.X.Type())
		}
		if n.Obj().Pkg() != nil && n.Obj().Pkg().Path() == "strings" && n.Obj().Name() == "Builder" {
			return builderKeys
		}
		f := s.Field(a.Field)
		return []string{e.heapKeyField(n, f.Name(), e.sortOf(f.Type()))}
	case *ssa.IndexAddr:
		if _, ok := a.X.Type().Underlying().(*types.Pointer); ok {
			return e.rootKeys(a.X, fn)
		}
		// slice element: provenance of the slice value
		if u, ok := a.X.(*ssa.UnOp); ok {
			return e.rootKeys(u.X, fn)
		}
		if _, ok := a.X.(*ssa.MakeSlice); ok {
			return nil
		}
		e.audit = append(e.audit, "element store through slice of unknown provenance in "+e.keyOf[fn]+": "+a.String())
		return nil
	case *ssa.Global:
		return []string{"G." + a.Pkg.Pkg.Name() + "." + a.Name()}
	}
	return e.pointeeKeys(addr.Type())
}

func (e *Engine) pointeeKeys(pt types.Type) []string {
	p, ok := pt.Underlying().(*types.Pointer)
	if !ok {
		return nil
	}
	if _, ok := p.Elem().Underlying().(*types.Array); ok {
		return nil // arrays only occur as varargs temporaries (engine-level cells)
	}
	if n, ok := p.Elem().(*types.Named); ok {
		if _, ok := n.Underlying().(*types.Struct); ok {
			if n.Obj().Pkg() != nil && n.Obj().Pkg().Path() == "strings" && n.Obj().Name() == "Builder" {
				return builderKeys
			}
			return e.structKeys(n)
		}
	}
	return []string{e.boxKey(p.Elem())}
}

var libMods = map[string][]string{
	"(*strings.Builder).WriteString": builderKeys,
	"fmt.Fprintf":                    builderKeys,
	"(*strings.Builder).WriteByte":   builderKeys,
	"(*strings.Builder).WriteRune":   builderKeys,
	"(*strings.Builder).Reset":       builderKeys,
	"(*strings.Builder).Grow":        nil,
}

func (e *Engine) implementations(iface *types.Interface, method string) []*ssa.Function {
	key := iface.String() + "#" + method
	if r, ok := e.implsCache[key]; ok {
		return r
	}
	var out []*ssa.Function
	for _, fn := range e.allFns {
		if fn.Name() != method || fn.Signature.Recv() == nil {
			continue
		}
		rt := fn.Signature.Recv().Type()
		if types.Implements(rt, iface) {
			out = append(out, fn)
		}
	}
	e.implsCache[key] = out
	return out
}

func (e *Engine) computeModsets() {
	e.modsets = map[*ssa.Function]map[string]bool{}
	direct := map[*ssa.Function]map[string]bool{}
	callees := map[*ssa.Function][]*ssa.Function{}
	for _, fn := range e.allFns {
		d := map[string]bool{}
		for _, b := range fn.Blocks {
			for _, ins := range b.Instrs {
				switch i := ins.(type) {
				case *ssa.Alloc:
					// zero-initialisation of a heap object writes all of its fields
					if i.Heap {
						for _, k := range e.pointeeKeys(i.Type()) {
							d[k] = true
						}
					}
				case *ssa.MakeMap:
					if m, ok := i.Type().Underlying().(*types.Map); ok {
						a, b2, c := e.mapKeys(m)
						d[a], d[b2], d[c] = true, true, true
					}
				case *ssa.MakeInterface:
					if n, ok := i.X.Type().(*types.Named); ok {
						if _, ok := n.Underlying().(*types.Struct); ok && !isRefType(n) {
							for _, k := range e.structKeys(n) {
								d[k] = true
							}
						}
					}
				case *ssa.Store:
					for _, k := range e.rootKeys(i.Addr, fn) {
						d[k] = true
					}
				case *ssa.MapUpdate:
					if m, ok := i.Map.Type().Underlying().(*types.Map); ok {
						a, b2, c := e.mapKeys(m)
						d[a], d[b2], d[c] = true, true, true
					}
				case ssa.CallInstruction:
					com := i.Common()
					if com.IsInvoke() {
						if it, ok := com.Value.Type().Underlying().(*types.Interface); ok {
							callees[fn] = append(callees[fn], e.implementations(it, com.Method.Name())...)
						}
						continue
					}
					if bi, ok := com.Value.(*ssa.Builtin); ok {
						if bi.Name() == "delete" {
							if m, ok := com.Args[0].Type().Underlying().(*types.Map); ok {
								a, b2, c := e.mapKeys(m)
								d[a], d[b2], d[c] = true, true, true
							}
						}
						continue
					}
					if sc := com.StaticCallee(); sc != nil {
						if _, ok := e.keyOf[sc]; ok {
							callees[fn] = append(callees[fn], sc)
						} else if ks, ok := libMods[sc.String()]; ok {
							for _, k := range ks {
								d[k] = true
							}
						} else if sc.String() == "sort.Ints" {
							// in-place sort of a slice: provenance handled by the library model
						}
						continue
					}
					// dynamic call through a function value
					switch v := com.Value.(type) {
					case *ssa.MakeClosure:
						if f, ok := v.Fn.(*ssa.Function); ok {
							callees[fn] = append(callees[fn], f)
						}
					default:
						sig, _ := com.Value.Type().Underlying().(*types.Signature)
						for _, g := range e.allFns {
							if sig != nil && g.Signature.Recv() == nil && types.Identical(g.Signature, sig) {
								callees[fn] = append(callees[fn], g)
							}
						}
					}
				}
			}
		}
		direct[fn] = d
		// anonymous functions defined in fn are potential callees too only when called; nothing to do here
	}
	for _, fn := range e.allFns {
		m := map[string]bool{}
		for k := range direct[fn] {
			m[k] = true
		}
		e.modsets[fn] = m
	}
	for changed := true; changed; {
		changed = false
		for _, fn := range e.allFns {
			m := e.modsets[fn]
			for _, c := range callees[fn] {
				for k := range e.modsets[c] {
					if !m[k] {
						m[k] = true
						changed = true
					}
				}
			}
		}
	}
}

func (e *Engine) modsetList(fn *ssa.Function) []string {
	var out []string
	for k := range e.modsets[fn] {
		out = append(out, k)
	}
	sort.Strings(out)
	return out
}

// globalsWritten lists package-level variables written anywhere in the given packages (C17 scan).
func (e *Engine) globalsWritten(pkgs map[string]bool) []string {
	seen := map[string]bool{}
	for _, fn := range e.allFns {
		if fn.Pkg == nil || !pkgs[fn.Pkg.Pkg.Name()] {
			continue
		}
		if fn.Name() == "init" {
			continue
		}
		for k := range e.modsets[fn] {
			if strings.HasPrefix(k, "G.") {
				seen[k+" (in "+e.keyOf[fn]+")"] = true
			}
		}
	}
	var out []string
	for k := range seen {
		out = append(out, k)
	}
	sort.Strings(out)
	return out
}
