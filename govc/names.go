package main

// Names the contracts refer to (parameters and local variables) are recorded with the obligation baseline. When a
// later tree no longer has a name but has, at the same position, a parameter - or a local of the same type and the
// same rank among the locals of that type - under a name the baseline does not know, the contract name is bound to
// it: a pure renaming does not unbind the contract (and so is not reported). Anything else still is.

import (
	"encoding/json"
	"os"
	"path/filepath"
	"sort"

	"golang.org/x/tools/go/ssa"
)

type localSig struct {
	Name string `json:"name"`
	Type string `json:"type"`
	Ord  int    `json:"ord"`
}

type funcNames struct {
	Params []string   `json:"params"`
	Locals []localSig `json:"locals"`
}

func localSigs(fn *ssa.Function) []localSig {
	var out []localSig
	count := map[string]int{}
	seen := map[string]bool{}
	for _, b := range fn.Blocks {
		for _, ins := range b.Instrs {
			a, ok := ins.(*ssa.Alloc)
			if !ok || a.Comment == "" {
				continue
			}
			isParam := false
			for _, p := range fn.Params {
				if p.Name() == a.Comment {
					isParam = true
				}
			}
			if isParam {
				continue
			}
			t := a.Type().String()
			key := a.Comment + "|" + t
			if seen[key] {
				continue
			}
			seen[key] = true
			out = append(out, localSig{Name: a.Comment, Type: t, Ord: count[t]})
			count[t]++
		}
	}
	return out
}

func (e *Engine) namesOf(fn *ssa.Function) funcNames {
	fnm := funcNames{}
	for _, p := range fn.Params {
		fnm.Params = append(fnm.Params, p.Name())
	}
	fnm.Locals = localSigs(fn)
	return fnm
}

func (e *Engine) loadNames() {
	e.namesOnce.Do(func() {
		e.baseNames = map[string]funcNames{}
		data, err := os.ReadFile(filepath.Join(filepath.Dir(e.specDir), "names.baseline.json"))
		if err == nil {
			json.Unmarshal(data, &e.baseNames)
		}
	})
}

// paramAliases: baseline name -> index, for parameters whose name changed
func (e *Engine) paramAliases(fn *ssa.Function) map[string]int {
	e.loadNames()
	b, ok := e.baseNames[e.keyOf[fn]]
	if !ok || len(b.Params) != len(fn.Params) {
		return nil
	}
	cur := map[string]bool{}
	for _, p := range fn.Params {
		cur[p.Name()] = true
	}
	out := map[string]int{}
	for i, old := range b.Params {
		if old != fn.Params[i].Name() && !cur[old] {
			out[old] = i
		}
	}
	return out
}

// localAliases: baseline name -> current name, for locals whose name changed
func (e *Engine) localAliases(fn *ssa.Function) map[string]string {
	e.loadNames()
	b, ok := e.baseNames[e.keyOf[fn]]
	if !ok {
		return nil
	}
	cur := localSigs(fn)
	curNames := map[string]bool{}
	for _, l := range cur {
		curNames[l.Name] = true
	}
	baseNames := map[string]bool{}
	for _, l := range b.Locals {
		baseNames[l.Name] = true
	}
	out := map[string]string{}
	for _, bl := range b.Locals {
		if curNames[bl.Name] {
			continue
		}
		var cands []string
		for _, cl := range cur {
			if cl.Type == bl.Type && cl.Ord == bl.Ord && !baseNames[cl.Name] {
				cands = append(cands, cl.Name)
			}
		}
		sort.Strings(cands)
		if len(cands) == 1 {
			out[bl.Name] = cands[0]
		}
	}
	return out
}

func writeNamesBaseline(e *Engine, verif string) {
	m := map[string]funcNames{}
	for k := range e.cs.Funcs {
		if fn := e.funcs[k]; fn != nil {
			m[k] = e.namesOf(fn)
		}
	}
	data, _ := json.MarshalIndent(m, "", " ")
	os.WriteFile(filepath.Join(verif, "names.baseline.json"), data, 0o644)
}
