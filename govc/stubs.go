package main

func cmdSweep(repo, verif, fnRe string, timeout int, verbose bool) int        { return 2 }
