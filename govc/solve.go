package main

import (
	"context"
	"fmt"
	"os"
	"os/exec"
	"path/filepath"
	"runtime"
	"strings"
	"sync"
	"time"
)

type solverSpec struct {
	name string
	cmd  func(file string, sec int) []string
}

var solvers = []solverSpec{
	{"z3-new", func(f string, s int) []string { return []string{"z3-new", fmt.Sprintf("-T:%d", s), "-smt2", f} }},
	{"z3", func(f string, s int) []string { return []string{"z3", fmt.Sprintf("-T:%d", s), "-smt2", f} }},
	{"cvc5", func(f string, s int) []string { return []string{"cvc5", fmt.Sprintf("--tlimit=%d", s*1000), f} }},
}

// raceExtra: the same solver with other random seeds joins the race for the queries the first attempt did not decide:
// the hard queries are the unstable ones (a solver's time on them varies by an order of magnitude with irrelevant
// changes), and a small portfolio is the standard way to make the outcome repeatable.
var raceExtra = []solverSpec{
	{"z3-new#7", func(f string, s int) []string {
		return []string{"z3-new", "smt.random_seed=7", "sat.random_seed=7", fmt.Sprintf("-T:%d", s), "-smt2", f}
	}},
	{"z3-new#23", func(f string, s int) []string {
		return []string{"z3-new", "smt.random_seed=23", "sat.random_seed=23", fmt.Sprintf("-T:%d", s), "-smt2", f}
	}},
	{"z3#7", func(f string, s int) []string {
		return []string{"z3", "smt.random_seed=7", "sat.random_seed=7", fmt.Sprintf("-T:%d", s), "-smt2", f}
	}},
}

func runSolver(sp solverSpec, file string, sec int) (status string, out string, dur float64) {
	return runSolverCtx(context.Background(), sp, file, sec)
}

// solverSlots bounds the number of solver processes running at once to the number of cores, so that a solver's
// (wall-clock) time limit measures its own work and not the load made by the other queries.
var solverSlots = make(chan struct{}, runtime.NumCPU())

func runSolverCtx(parent context.Context, sp solverSpec, file string, sec int) (status string, out string, dur float64) {
	select {
	case solverSlots <- struct{}{}:
	case <-parent.Done():
		return "cancelled", "", 0
	}
	defer func() { <-solverSlots }()
	ctx, cancel := context.WithTimeout(parent, time.Duration(sec+5)*time.Second)
	defer cancel()
	args := sp.cmd(file, sec)
	t0 := time.Now()
	cmd := exec.CommandContext(ctx, args[0], args[1:]...)
	b, _ := cmd.CombinedOutput()
	dur = time.Since(t0).Seconds()
	out = string(b)
	first := strings.TrimSpace(strings.SplitN(out, "\n", 2)[0])
	switch first {
	case "sat", "unsat", "unknown":
		status = first
	case "timeout":
		status = "timeout"
	default:
		if parent.Err() != nil {
			status = "cancelled"
		} else if ctx.Err() != nil {
			status = "timeout"
		} else if strings.Contains(out, "timeout") || strings.Contains(out, "interrupted") {
			status = "timeout"
		} else {
			status = "error"
		}
	}
	return
}

type solveOpts struct {
	timeout int  // seconds per solver
	all     bool // run every solver (thorough) instead of stopping at first answer
	dir     string
	models  bool
	workers int
}

// solveAll discharges obligations; writes each query into opts.dir.
func solveAll(e *Engine, ctxs []*Ctx, obs []*Obligation, opts solveOpts) {
	preludes := map[*Ctx]string{}
	gaxs := map[*Ctx][]string{}
	for _, c := range ctxs {
		gaxs[c] = c.globalAxioms()
	}
	for _, c := range ctxs {
		preludes[c] = e.prelude(c)
	}
	var wg sync.WaitGroup
	ch := make(chan *Obligation)
	nw := opts.workers
	if nw <= 0 {
		nw = 16
	}
	for w := 0; w < nw; w++ {
		wg.Add(1)
		go func() {
			defer wg.Done()
			for ob := range ch {
				solveOne(ob, preludes[ob.Ctx], gaxs[ob.Ctx], opts)
			}
		}()
	}
	for _, ob := range obs {
		if ob.Result == "unbound" {
			continue
		}
		ch <- ob
	}
	close(ch)
	wg.Wait()
}

func slug(s string) string {
	r := strings.Map(func(r rune) rune {
		if (r >= 'a' && r <= 'z') || (r >= 'A' && r <= 'Z') || (r >= '0' && r <= '9') || r == '_' || r == '.' || r == '-' {
			return r
		}
		return '_'
	}, s)
	if len(r) > 150 {
		r = r[:150]
	}
	return r
}

func solveOne(ob *Obligation, prelude string, gax []string, opts solveOpts) {
	ob.Raw = map[string]string{}
	if ob.Goal == "true" && ob.Expect == "unsat" {
		ob.Result, ob.Solver = "unsat", "trivial"
		return
	}
	if ob.Kind == "rec-progress" {
		// optional obligations (progress before a recursive call): a short attempt by two solvers is all they get;
		// the ones that hold are simple arithmetic, the others would only burn the time limit
		q := ob.query(prelude, gax)
		file := filepath.Join(opts.dir, slug(ob.Name)+".smt2")
		if err := os.WriteFile(file, []byte(q), 0o644); err != nil {
			ob.Result = "error"
			return
		}
		ob.File = file
		ob.Result = "unknown"
		for _, sp := range solvers[:2] {
			st, out, dur := runSolver(sp, file, 4)
			ob.TimeS += dur
			ob.Raw[sp.name] = fmt.Sprintf("%s (%.2fs) %s", st, dur, trunc(strings.TrimSpace(out), 100))
			if st == "unsat" || st == "sat" {
				ob.Result, ob.Solver = st, sp.name
				break
			}
		}
		return
	}
	if ob.isFrame() && ob.Expect == "unsat" {
		lq := ob.queryWith(prelude, gax, true)
		lfile := filepath.Join(opts.dir, slug(ob.Name)+".lean.smt2")
		if err := os.WriteFile(lfile, []byte(lq), 0o644); err == nil {
			st, out, dur := runSolver(solvers[0], lfile, 3)
			ob.TimeS += dur
			if st == "unsat" {
				ob.Raw[solvers[0].name] = fmt.Sprintf("%s (%.2fs, without quantified user facts) %s", st, dur, trunc(strings.TrimSpace(out), 100))
				ob.Result, ob.Solver, ob.File = "unsat", solvers[0].name, lfile
				return
			}
			os.Remove(lfile)
		}
	}
	q := ob.query(prelude, gax)
	file := filepath.Join(opts.dir, slug(ob.Name)+".smt2")
	// avoid collisions
	for n := 2; ; n++ {
		if _, err := os.Stat(file); err != nil {
			break
		}
		file = filepath.Join(opts.dir, fmt.Sprintf("%s.%d.smt2", slug(ob.Name), n))
	}
	if err := os.WriteFile(file, []byte(q), 0o644); err != nil {
		ob.Result = "error"
		ob.Raw["io"] = err.Error()
		return
	}
	ob.File = file
	final := ""
	type res struct {
		name, st, out string
		dur           float64
	}
	// z3-new first on its own for a short time (it decides almost everything at once); if it does not
	// answer, race all three solvers concurrently with the full timeout
	quickT := 3
	if opts.timeout < quickT {
		quickT = opts.timeout
	}
	first := solvers[0]
	if ob.Expect == "sat" {
		st, out, dur := runSolver(first, file, 2)
		ob.Raw[first.name] = fmt.Sprintf("%s (%.2fs) %s", st, dur, trunc(strings.TrimSpace(out), 300))
		ob.TimeS += dur
		if st == "sat" || st == "unsat" {
			final = st
			ob.Solver = first.name
		}
	} else {
		st, out, dur := runSolver(first, file, quickT)
		ob.Raw[first.name] = fmt.Sprintf("%s (%.2fs) %s", st, dur, trunc(strings.TrimSpace(out), 300))
		ob.TimeS += dur
		if (st == "sat" || st == "unsat") && !opts.all {
			final = st
			ob.Solver = first.name
		} else if st == "sat" || st == "unsat" {
			// thorough: the other two solvers get a short time to agree or disagree (a disagreement is a conflict;
			// their silence is not)
			final = st
			ob.Solver = first.name
			ch := make(chan res, len(solvers))
			n := 0
			for _, sp := range solvers[1:] {
				n++
				go func(sp solverSpec) {
					st, out, dur := runSolver(sp, file, 8)
					ch <- res{sp.name, st, out, dur}
				}(sp)
			}
			for k := 0; k < n; k++ {
				r := <-ch
				ob.Raw[r.name] = fmt.Sprintf("%s (%.2fs) %s", r.st, r.dur, trunc(strings.TrimSpace(r.out), 300))
				if (r.st == "sat" || r.st == "unsat") && r.st != final {
					final = "conflict"
				} else if r.st == final {
					ob.Agree++
				}
			}
		} else {
			// race: once one solver has answered, the others get a short grace period (to agree or to disagree)
			// and are then cancelled
			rctx, rcancel := context.WithCancel(context.Background())
			racers := append(append([]solverSpec{}, solvers...), raceExtra...)
			ch := make(chan res, len(racers))
			for _, sp := range racers {
				go func(sp solverSpec) {
					st, out, dur := runSolverCtx(rctx, sp, file, opts.timeout)
					ch <- res{sp.name, st, out, dur}
				}(sp)
			}
			for range racers {
				r := <-ch
				if r.st == "cancelled" {
					ob.Raw[r.name] = fmt.Sprintf("cancelled (%.2fs) another solver had answered", r.dur)
					continue
				}
				ob.Raw[r.name] = fmt.Sprintf("%s (%.2fs) %s", r.st, r.dur, trunc(strings.TrimSpace(r.out), 300))
				if r.dur > ob.TimeS {
					ob.TimeS = r.dur
				}
				if (r.st == "sat" || r.st == "unsat") && final == "" {
					grace := 2 * time.Second
					if opts.all {
						grace = 8 * time.Second
					}
					time.AfterFunc(grace, rcancel)
				}
				if r.st == "sat" || r.st == "unsat" {
					if final == "" {
						final = r.st
						ob.Solver = r.name
					} else if final != r.st {
						final = "conflict"
					}
				}
			}
			rcancel()
		}
	}
	if final == "" {
		final = "unknown"
	}
	ob.Result = final
	if final != "unsat" && final != "sat" && ob.Expect == "unsat" && opts.models {
		// ground query: drop every quantified assumption; a model of the weaker query is a candidate counterexample
		var gq strings.Builder
		for _, ln := range strings.Split(q, "\n") {
			if strings.HasPrefix(ln, "(assert ") && (strings.Contains(ln, "(forall ") || strings.Contains(ln, "(exists ")) && !strings.HasPrefix(ln, "(assert (not ") {
				continue
			}
			if ln == "(check-sat)" {
				continue
			}
			gq.WriteString(ln + "\n")
		}
		gq.WriteString("(check-sat)\n(get-model)\n")
		gfile := strings.TrimSuffix(file, ".smt2") + ".ground.smt2"
		os.WriteFile(gfile, []byte(gq.String()), 0o644)
		st, out, _ := runSolver(solvers[0], gfile, opts.timeout)
		ob.Raw["ground"] = st
		if st == "sat" {
			ob.Model = out
			ob.Candidate = true
		}
	}
	if final == "sat" && ob.Expect == "unsat" && opts.models {
		// ask the deciding solver for a model
		mq := strings.TrimSuffix(q, "(check-sat)\n") + "(check-sat)\n(get-model)\n"
		mfile := strings.TrimSuffix(file, ".smt2") + ".model.smt2"
		os.WriteFile(mfile, []byte(mq), 0o644)
		for _, sp := range solvers {
			if sp.name == ob.Solver {
				_, out, _ := runSolver(sp, mfile, opts.timeout)
				ob.Model = out
			}
		}
	}
}

func (ob *Obligation) ok() bool {
	if ob.Expect == "sat" {
		// vacuity guard: anything but a proof of unsatisfiability is fine
		return ob.Result != "unsat" && ob.Result != "error" && ob.Result != "conflict"
	}
	return ob.Result == ob.Expect
}
