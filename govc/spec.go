package main

import (
	"fmt"
	"go/constant"
	"go/types"
	"strconv"
	"strings"

	"golang.org/x/tools/go/ssa"
)

type SVal struct {
	T  string
	S  string
	GT types.Type
}

type EvalCtx struct {
	c      *Ctx
	pkg    string
	st     *State
	old    *State
	vars   map[string]SVal
	frame  *Frame
	reach  string
	inLoop bool
	depth  int
	outer  *State
	prev   *State
	prevVars map[string]SVal // iteration variables at the loop header (inside prev())
	loopBlocks map[*ssa.BasicBlock]bool // blocks of the loop whose transition is being evaluated (called())
	pre    *State
	qdepth int
	quiet  bool // do not report evaluation errors of use clauses (they are evaluated at several points)
	mode   int // 1: goal position (skolemise universally quantified conjuncts)
}

func (f *Frame) evalCtx(st *State, reach string) *EvalCtx {
	ev := &EvalCtx{c: f.c, pkg: f.fn.Pkg.Pkg.Name(), st: st, old: f.topFrame().entry, vars: map[string]SVal{}, frame: f, reach: reach}
	return ev
}

func (ev *EvalCtx) with(st *State) *EvalCtx {
	n := *ev
	n.st = st
	return &n
}

func (ev *EvalCtx) bind(name string, v SVal) *EvalCtx {
	n := *ev
	n.vars = make(map[string]SVal, len(ev.vars)+1)
	for k, x := range ev.vars {
		n.vars[k] = x
	}
	n.vars[name] = v
	return &n
}

// resolveType maps a spec type to (sort, go type or nil)
func (e *Engine) resolveType(pkg string, t *TypeExpr) (string, types.Type) {
	switch t.Kind {
	case "ptr":
		_, gt := e.resolveType(pkg, t.Elem)
		if gt != nil {
			return "Int", types.NewPointer(gt)
		}
		return "Int", nil
	case "slice", "seq":
		s, gt := e.resolveType(pkg, t.Elem)
		if gt != nil && t.Kind == "slice" {
			return e.sliceSort(s), types.NewSlice(gt)
		}
		return e.sliceSort(s), nil
	case "set":
		s, _ := e.resolveType(pkg, t.Elem)
		return "(Array " + s + " Bool)", nil
	case "map":
		ks, kt := e.resolveType(pkg, t.Key)
		vs, vt := e.resolveType(pkg, t.Elem)
		if kt != nil && vt != nil {
			return "Int", types.NewMap(kt, vt)
		}
		return "(Array " + ks + " " + vs + ")", nil
	case "name":
		if t.Pkg == "" {
			switch t.Name {
			case "int", "int64", "rune", "byte":
				return "Int", types.Typ[types.Int]
			case "bool":
				return "Bool", types.Typ[types.Bool]
			case "string":
				return "Str", types.Typ[types.String]
			case "ref":
				return "Int", nil
			case "struct{}":
				return "Int", types.NewStruct(nil, nil)
			case "beh":
				return "Beh", nil
			case "error":
				return "Int", types.Universe.Lookup("error").Type()
			}
		}
		p := pkg
		if t.Pkg != "" {
			p = t.Pkg
		}
		if tp, ok := e.tpkgs[p]; ok {
			if obj := tp.Types.Scope().Lookup(t.Name); obj != nil {
				if tn, ok := obj.(*types.TypeName); ok {
					return e.sortOf(tn.Type()), tn.Type()
				}
			}
		}
		if t.Pkg == "strings" && t.Name == "Builder" {
			for _, tp := range e.tpkgs {
				if ip, ok := tp.Imports["strings"]; ok {
					tn := ip.Types.Scope().Lookup("Builder").(*types.TypeName)
					return "Int", tn.Type()
				}
			}
		}
	}
	panic(fmt.Sprintf("cannot resolve spec type %s in package %s", t.String(), pkg))
}

func (ev *EvalCtx) evalBool(e *Expr) (string, error) {
	v, err := ev.eval(e)
	if err != nil {
		return "", err
	}
	if v.S != "Bool" {
		return "", fmt.Errorf("expression %s is not boolean (sort %s)", e.String(), v.S)
	}
	return v.T, nil
}

func charVal(s string) (int, error) {
	if strings.HasPrefix(s, "\\") {
		switch s[1] {
		case 'n':
			return '\n', nil
		case 't':
			return '\t', nil
		case 'r':
			return '\r', nil
		case '\\':
			return '\\', nil
		case '\'':
			return '\'', nil
		case '0':
			return 0, nil
		}
		return 0, fmt.Errorf("bad char escape %s", s)
	}
	r := []rune(s)
	return int(r[0]), nil
}

func (ev *EvalCtx) lookupLocal(name string) (SVal, bool, error) {
	// an inlined loop-carrying callee sees its own locals first, then those of its callers
	for f := ev.frame; f != nil; f = f.up {
		v, found, err := ev.lookupLocalIn(f, name)
		if found && (err == nil || f.up == nil) {
			return v, found, err
		}
		if f.up == nil {
			return v, found, err
		}
	}
	return SVal{}, false, nil
}

func (ev *EvalCtx) lookupLocalIn(f *Frame, name string) (SVal, bool, error) {
	if f == nil {
		return SVal{}, false, nil
	}
	n := name
	k := 0
	if j := strings.Index(name, "#"); j >= 0 {
		n = name[:j]
		k, _ = strconv.Atoi(name[j+1:])
	}
	as := f.locals[n]
	if len(as) == 0 {
		return SVal{}, false, nil
	}
	var a *ssa.Alloc
	if k > 0 {
		if k > len(as) {
			return SVal{}, true, fmt.Errorf("local %s has only %d declarations", n, len(as))
		}
		a = as[k-1]
	} else {
		// pick the declaration that is live in the state (prefer the last one present)
		for i := len(as) - 1; i >= 0; i-- {
			if as[i].Heap {
				if _, ok := f.regs[as[i]]; ok {
					a = as[i]
					break
				}
				continue
			}
			if _, ok := ev.st.cells[as[i]]; ok {
				a = as[i]
				break
			}
		}
		if a == nil {
			return SVal{}, true, fmt.Errorf("local %s is not live at this point", n)
		}
	}
	et := a.Type().(*types.Pointer).Elem()
	if a.Heap {
		ref, ok := f.regs[a]
		if !ok {
			return SVal{}, true, fmt.Errorf("local %s (heap) not yet allocated at this point", n)
		}
		if nm, ok := et.(*types.Named); ok {
			if _, ok := nm.Underlying().(*types.Struct); ok {
				// a struct variable living on the heap: denote it by its address (pointer semantics)
				return SVal{T: ref.T, S: "Int", GT: a.Type()}, true, nil
			}
		}
		s := ev.c.eng.sortOf(et)
		return SVal{T: "(select " + ev.c.heapTerm(ev.st, ev.c.eng.boxKey(et)) + " " + ref.T + ")", S: s, GT: et}, true, nil
	}
	v, ok := ev.st.cells[a]
	if !ok {
		return SVal{}, true, fmt.Errorf("local %s not initialised at this point", n)
	}
	return SVal{T: v.T, S: v.S, GT: et}, true, nil
}

func (ev *EvalCtx) pkgConst(pkg, name string) (SVal, bool) {
	tp, ok := ev.c.eng.tpkgs[pkg]
	if !ok {
		return SVal{}, false
	}
	obj := tp.Types.Scope().Lookup(name)
	if obj == nil {
		return SVal{}, false
	}
	if cst, ok := obj.(*types.Const); ok {
		switch cst.Val().Kind() {
		case constant.String:
			return SVal{T: ev.c.eng.lit(constant.StringVal(cst.Val())), S: "Str", GT: cst.Type()}, true
		case constant.Int:
			s := cst.Val().ExactString()
			if strings.HasPrefix(s, "-") {
				s = "(- " + s[1:] + ")"
			}
			return SVal{T: s, S: "Int", GT: cst.Type()}, true
		case constant.Bool:
			return SVal{T: fmt.Sprint(constant.BoolVal(cst.Val())), S: "Bool"}, true
		}
	}
	return SVal{}, false
}

func (ev *EvalCtx) eval(e *Expr) (SVal, error) {
	c := ev.c
	if ev.mode == 1 {
		switch {
		case e.Op == "binary" && e.Name == "&&":
			x, err := ev.eval(e.Args[0])
			if err != nil {
				return SVal{}, err
			}
			y, err := ev.eval(e.Args[1])
			if err != nil {
				return SVal{}, err
			}
			return SVal{T: "(and " + x.T + " " + y.T + ")", S: "Bool"}, nil
		case e.Op == "binary" && e.Name == "==>" && e.Args[0].Op == "forall":
			t, err := c.goalWithQuantifiedAntecedent(e, ev)
			return SVal{T: t, S: "Bool"}, err
		case e.Op == "binary" && e.Name == "==>":
			n := *ev
			n.mode = 0
			g, err := n.evalBool(e.Args[0])
			if err != nil {
				return SVal{}, err
			}
			y, err := ev.eval(e.Args[1])
			if err != nil {
				return SVal{}, err
			}
			return SVal{T: "(=> " + g + " " + y.T + ")", S: "Bool"}, nil
		case e.Op == "forall":
			t, err := c.skolemiseForall(e, ev)
			return SVal{T: t, S: "Bool"}, err
		case e.Op == "call" && c.eng.cs.Preds[e.Name] != nil:
			// keep goal mode through pred expansion
		default:
			n := *ev
			n.mode = 0
			return n.eval(e)
		}
	}
	switch e.Op {
	case "int":
		n, err := strconv.ParseInt(e.Name, 0, 64)
		if err != nil {
			return SVal{}, err
		}
		return SVal{T: fmt.Sprint(n), S: "Int", GT: types.Typ[types.Int]}, nil
	case "str":
		return SVal{T: c.eng.lit(e.Name), S: "Str", GT: types.Typ[types.String]}, nil
	case "char":
		n, err := charVal(e.Name)
		if err != nil {
			return SVal{}, err
		}
		return SVal{T: fmt.Sprint(n), S: "Int", GT: types.Typ[types.Int]}, nil
	case "bool":
		return SVal{T: e.Name, S: "Bool"}, nil
	case "nil":
		return SVal{T: "0", S: "Int"}, nil
	case "ident":
		if v, ok := ev.vars[e.Name]; ok {
			return v, nil
		}
		if v, found, err := ev.lookupLocal(e.Name); found {
			return v, err
		}
		if _, ok := c.eng.cs.Ghosts[e.Name]; ok {
			g := c.eng.cs.Ghosts[e.Name]
			s, gt := c.eng.resolveType(g.Pkg, g.Type)
			return SVal{T: c.ghostTerm(ev.st, e.Name), S: s, GT: gt}, nil
		}
		if v, ok := ev.pkgConst(ev.pkg, e.Name); ok {
			return v, nil
		}
		return SVal{}, fmt.Errorf("unknown identifier %s", e.Name)
	case "unary":
		x, err := ev.eval(e.Args[0])
		if err != nil {
			return SVal{}, err
		}
		if e.Name == "!" {
			return SVal{T: "(not " + x.T + ")", S: "Bool"}, nil
		}
		if e.Name == "*" {
			if x.GT != nil {
				if pt, ok := x.GT.Underlying().(*types.Pointer); ok {
					if n, _ := ptrStruct(x.GT); n == nil {
						k := c.eng.boxKey(pt.Elem())
						return SVal{T: "(select " + c.heapTerm(ev.st, k) + " " + x.T + ")", S: c.eng.sortOf(pt.Elem()), GT: pt.Elem()}, nil
					}
				}
			}
			return SVal{}, fmt.Errorf("cannot dereference %s", e.Args[0].String())
		}
		return SVal{T: "(- " + x.T + ")", S: "Int", GT: x.GT}, nil
	case "binary":
		return ev.evalBinary(e)
	case "cond":
		a, err := ev.evalBool(e.Args[0])
		if err != nil {
			return SVal{}, err
		}
		x, err := ev.eval(e.Args[1])
		if err != nil {
			return SVal{}, err
		}
		y, err := ev.eval(e.Args[2])
		if err != nil {
			return SVal{}, err
		}
		if x.S != y.S {
			return SVal{}, fmt.Errorf("branches of ?: have different sorts %s / %s", x.S, y.S)
		}
		return SVal{T: "(ite " + a + " " + x.T + " " + y.T + ")", S: x.S, GT: x.GT}, nil
	case "select":
		return ev.evalSelect(e)
	case "index":
		x, err := ev.eval(e.Args[0])
		if err != nil {
			return SVal{}, err
		}
		i, err := ev.eval(e.Args[1])
		if err != nil {
			return SVal{}, err
		}
		return ev.indexVal(x, i)
	case "slice":
		x, err := ev.eval(e.Args[0])
		if err != nil {
			return SVal{}, err
		}
		lo := "0"
		if e.Args[1] != nil {
			l, err := ev.eval(e.Args[1])
			if err != nil {
				return SVal{}, err
			}
			lo = l.T
		}
		var hi string
		if e.Args[2] != nil {
			h, err := ev.eval(e.Args[2])
			if err != nil {
				return SVal{}, err
			}
			hi = h.T
		}
		if x.S == "Str" {
			if hi == "" {
				hi = "(slen " + x.T + ")"
			}
			return SVal{T: "(substr " + x.T + " " + lo + " " + hi + ")", S: "Str", GT: x.GT}, nil
		}
		if isSliceSort(x.S) {
			v := Val{T: x.T, S: x.S}
			if hi == "" {
				hi = c.slLen(v)
			}
			return SVal{T: c.mkSlice(x.S, c.slArr(v), plus(c.slOff(v), lo), "(- "+hi+" "+lo+")"), S: x.S, GT: x.GT}, nil
		}
		return SVal{}, fmt.Errorf("cannot slice sort %s", x.S)
	case "forall", "exists":
		n := ev
		{
			cp := *ev
			cp.qdepth = ev.qdepth + 1
			n = &cp
		}
		var binds []string
		for _, v := range e.Vars {
			s, gt := c.eng.resolveType(ev.pkg, v.Type)
			// deterministic names (by nesting depth) so that the same clause evaluated twice gives the same text;
			// nested quantifiers over the same variable name get different depths, so no capture
			nm := fmt.Sprintf("%s!q%d", v.Name, n.qdepth)
			binds = append(binds, "("+nm+" "+s+")")
			n = n.bind(v.Name, SVal{T: nm, S: s, GT: gt})
		}
		body, err := n.evalBool(e.Args[0])
		if err != nil {
			return SVal{}, err
		}
		pat := ""
		for _, tr := range e.Trig {
			var ts []string
			for _, t := range tr {
				tv, err := n.eval(t)
				if err != nil {
					return SVal{}, err
				}
				ts = append(ts, tv.T)
			}
			pat += " :pattern (" + strings.Join(ts, " ") + ")"
		}
		if pat != "" {
			body = "(! " + body + pat + ")"
		}
		return SVal{T: "(" + e.Op + " (" + strings.Join(binds, " ") + ") " + body + ")", S: "Bool"}, nil
	case "call":
		return ev.evalCall(e)
	}
	return SVal{}, fmt.Errorf("cannot evaluate %s", e.String())
}

func (ev *EvalCtx) indexVal(x, i SVal) (SVal, error) {
	c := ev.c
	switch {
	case x.S == "Str":
		return SVal{T: "(sbyte " + x.T + " " + i.T + ")", S: "Int"}, nil
	case isSliceSort(x.S):
		v := Val{T: x.T, S: x.S}
		es := c.eng.sliceElemSort(x.S)
		var gt types.Type
		if x.GT != nil {
			if sl, ok := x.GT.Underlying().(*types.Slice); ok {
				gt = sl.Elem()
			}
		}
		return SVal{T: "(select " + c.slArr(v) + " " + plus(c.slOff(v), i.T) + ")", S: es, GT: gt}, nil
	case strings.HasPrefix(x.S, "(Array "):
		_, vs := splitArraySort(x.S)
		return SVal{T: "(select " + x.T + " " + i.T + ")", S: vs}, nil
	}
	if x.GT != nil {
		if m, ok := x.GT.Underlying().(*types.Map); ok {
			dom, val, _ := c.eng.mapKeys(m)
			vs := c.eng.sortOf(m.Elem())
			in := "(select (select " + c.heapTerm(ev.st, dom) + " " + x.T + ") " + i.T + ")"
			raw := "(select (select " + c.heapTerm(ev.st, val) + " " + x.T + ") " + i.T + ")"
			// specification-level lookup: the stored value (meaningful only for keys in the domain; use indom
			// to guard). Boolean maps read false for absent keys, as in Go. No ite, so the term can be a trigger.
			if vs == "Bool" {
				return SVal{T: "(and " + in + " " + raw + ")", S: vs, GT: m.Elem()}, nil
			}
			return SVal{T: raw, S: vs, GT: m.Elem()}, nil
		}
	}
	return SVal{}, fmt.Errorf("cannot index sort %s", x.S)
}

func (ev *EvalCtx) evalBinary(e *Expr) (SVal, error) {
	x, err := ev.eval(e.Args[0])
	if err != nil {
		return SVal{}, err
	}
	y, err := ev.eval(e.Args[1])
	if err != nil {
		return SVal{}, err
	}
	b := func(op string) (SVal, error) {
		return SVal{T: "(" + op + " " + x.T + " " + y.T + ")", S: "Bool"}, nil
	}
	switch e.Name {
	case "+":
		if x.S == "Str" {
			return SVal{T: "(sconcat " + x.T + " " + y.T + ")", S: "Str", GT: x.GT}, nil
		}
		return SVal{T: "(+ " + x.T + " " + y.T + ")", S: "Int", GT: x.GT}, nil
	case "-":
		return SVal{T: "(- " + x.T + " " + y.T + ")", S: "Int", GT: x.GT}, nil
	case "*":
		return SVal{T: "(* " + x.T + " " + y.T + ")", S: "Int", GT: x.GT}, nil
	case "/":
		return SVal{T: "(godiv " + x.T + " " + y.T + ")", S: "Int", GT: x.GT}, nil
	case "%":
		return SVal{T: "(gorem " + x.T + " " + y.T + ")", S: "Int", GT: x.GT}, nil
	case "==":
		if x.S != y.S {
			return SVal{}, fmt.Errorf("== on different sorts %s / %s in %s", x.S, y.S, e.String())
		}
		return b("=")
	case "!=":
		if x.S != y.S {
			return SVal{}, fmt.Errorf("!= on different sorts %s / %s in %s", x.S, y.S, e.String())
		}
		return SVal{T: "(not (= " + x.T + " " + y.T + "))", S: "Bool"}, nil
	case "<", "<=", ">", ">=":
		if x.S != "Int" || y.S != "Int" {
			return SVal{}, fmt.Errorf("%s on non-integers in %s", e.Name, e.String())
		}
		return b(e.Name)
	case "&&":
		return b("and")
	case "||":
		return b("or")
	case "==>":
		return b("=>")
	case "<==>":
		return b("=")
	}
	return SVal{}, fmt.Errorf("unknown operator %s", e.Name)
}

func (ev *EvalCtx) evalSelect(e *Expr) (SVal, error) {
	c := ev.c
	// package-qualified constant?
	if id := e.Args[0]; id.Op == "ident" {
		if _, isVar := ev.vars[id.Name]; !isVar {
			if _, isPkg := c.eng.tpkgs[id.Name]; isPkg {
				if _, found, _ := ev.lookupLocal(id.Name); !found {
					if v, ok := ev.pkgConst(id.Name, e.Name); ok {
						return v, nil
					}
					return SVal{}, fmt.Errorf("unknown constant %s.%s", id.Name, e.Name)
				}
			}
		}
	}
	x, err := ev.eval(e.Args[0])
	if err != nil {
		return SVal{}, err
	}
	// datatype value
	if dt, ok := c.eng.dtypes[x.S]; ok && !isSliceSort(x.S) {
		for _, f := range dt.Fields {
			if f.Name == e.Name {
				return SVal{T: "(" + f.Acc + " " + x.T + ")", S: f.Sort, GT: f.Type}, nil
			}
		}
		// promoted fields through embedded structs
		for _, f := range dt.Fields {
			if sub, ok := c.eng.dtypes[f.Sort]; ok {
				for _, g := range sub.Fields {
					if g.Name == e.Name {
						return SVal{T: "(" + g.Acc + " (" + f.Acc + " " + x.T + "))", S: g.Sort, GT: g.Type}, nil
					}
				}
			}
		}
		return SVal{}, fmt.Errorf("no field %s in %s", e.Name, x.S)
	}
	if isSliceSort(x.S) && e.Name == "len" {
		return SVal{T: c.slLen(Val{T: x.T, S: x.S}), S: "Int"}, nil
	}
	if x.GT != nil {
		if n, s := ptrStruct(x.GT); n != nil {
			if n.Obj().Pkg() != nil && n.Obj().Pkg().Path() == "strings" && n.Obj().Name() == "Builder" {
				switch e.Name {
				case "pieces", "markers":
					return SVal{T: "(select " + c.heapTerm(ev.st, "H.strings.Builder."+e.Name) + " " + x.T + ")", S: "Sl.Str"}, nil
				case "nbytes":
					return SVal{T: "(select " + c.heapTerm(ev.st, "H.strings.Builder.nbytes") + " " + x.T + ")", S: "Int"}, nil
				}
				return SVal{}, fmt.Errorf("strings.Builder has ghost fields pieces, markers and nbytes only")
			}
			for i := 0; i < s.NumFields(); i++ {
				if s.Field(i).Name() == e.Name {
					fs := c.eng.sortOf(s.Field(i).Type())
					k := c.eng.heapKeyField(n, e.Name, fs)
					return SVal{T: "(select " + c.heapTerm(ev.st, k) + " " + x.T + ")", S: fs, GT: s.Field(i).Type()}, nil
				}
			}
			// promoted field via embedded struct value
			for i := 0; i < s.NumFields(); i++ {
				if s.Field(i).Embedded() {
					if sub, ok := c.eng.dtypes[c.eng.sortOf(s.Field(i).Type())]; ok {
						for _, g := range sub.Fields {
							if g.Name == e.Name {
								fs := c.eng.sortOf(s.Field(i).Type())
								k := c.eng.heapKeyField(n, s.Field(i).Name(), fs)
								return SVal{T: "(" + g.Acc + " (select " + c.heapTerm(ev.st, k) + " " + x.T + "))", S: g.Sort, GT: g.Type}, nil
							}
						}
					}
				}
			}
			for _, gf := range c.eng.ghostFields[namedKey(n)] {
				if gf.Name == e.Name {
					gs, gt := c.eng.resolveType(gf.Pkg, gf.Type)
					k := c.eng.heapKeyRaw("H."+namedKey(n)+"."+gf.Name, gs)
					return SVal{T: "(select " + c.heapTerm(ev.st, k) + " " + x.T + ")", S: gs, GT: gt}, nil
				}
			}
			return SVal{}, fmt.Errorf("no field %s in %s", e.Name, n.Obj().Name())
		}
		// interface value holding a boxed struct: find a boxable struct with this field
		if _, ok := x.GT.Underlying().(*types.Interface); ok {
			for _, bn := range c.eng.boxable() {
				s := bn.Underlying().(*types.Struct)
				for i := 0; i < s.NumFields(); i++ {
					if s.Field(i).Name() == e.Name {
						fs := c.eng.sortOf(s.Field(i).Type())
						k := c.eng.heapKeyField(bn, e.Name, fs)
						return SVal{T: "(select " + c.heapTerm(ev.st, k) + " " + x.T + ")", S: fs, GT: s.Field(i).Type()}, nil
					}
				}
			}
		}
	}
	return SVal{}, fmt.Errorf("cannot select .%s from %s (sort %s)", e.Name, e.Args[0].String(), x.S)
}

// boxable: struct types that get boxed into interfaces (error values)
func (e *Engine) boxable() []*types.Named {
	var out []*types.Named
	if tp, ok := e.tpkgs["parser"]; ok {
		if obj := tp.Types.Scope().Lookup("ParseError"); obj != nil {
			out = append(out, obj.Type().(*types.Named))
		}
	}
	return out
}

func (ev *EvalCtx) evalArgs(args []*Expr) ([]SVal, error) {
	var out []SVal
	for _, a := range args {
		v, err := ev.eval(a)
		if err != nil {
			return nil, err
		}
		out = append(out, v)
	}
	return out, nil
}

func (ev *EvalCtx) evalCall(e *Expr) (SVal, error) {
	c := ev.c
	switch e.Name {
	case "old":
		if len(e.Args) != 1 {
			return SVal{}, fmt.Errorf("old takes one argument")
		}
		n := ev.with(ev.old)
		n.inLoop = false
		if ev.frame != nil {
			// inside old(), parameter names denote their entry values
			n.vars = make(map[string]SVal, len(ev.vars)+len(ev.frame.params))
			for k, v := range ev.vars {
				n.vars[k] = v
			}
			for k, v := range ev.frame.topFrame().params {
				if _, bound := n.vars[k]; !bound {
					n.vars[k] = SVal{T: v.T, S: v.S, GT: v.GT}
				}
			}
		}
		// inside old(), locals still denote... the entry state has no locals except parameters
		return n.eval(e.Args[0])
	case "pre":
		if ev.pre == nil {
			return SVal{}, fmt.Errorf("pre() used outside a loop clause")
		}
		n := ev.with(ev.pre)
		return n.eval(e.Args[0])
	case "prev":
		if ev.prev == nil {
			return SVal{}, fmt.Errorf("prev() used outside a transition clause")
		}
		n := ev.with(ev.prev)
		if ev.prevVars != nil {
			// the iteration variables ($i, $pos, ...) denote their values at the loop header inside prev()
			for k, v := range ev.prevVars {
				n = n.bind(k, v)
			}
		}
		return n.eval(e.Args[0])
	case "outer":
		if ev.outer == nil {
			return SVal{}, fmt.Errorf("outer() used outside a nested loop")
		}
		n := ev.with(ev.outer)
		return n.eval(e.Args[0])
	case "len":
		x, err := ev.eval(e.Args[0])
		if err != nil {
			return SVal{}, err
		}
		switch {
		case x.S == "Str":
			return SVal{T: "(slen " + x.T + ")", S: "Int"}, nil
		case isSliceSort(x.S):
			return SVal{T: c.slLen(Val{T: x.T, S: x.S}), S: "Int"}, nil
		}
		if x.GT != nil {
			if m, ok := x.GT.Underlying().(*types.Map); ok {
				_, _, ln := c.eng.mapKeys(m)
				return SVal{T: "(select " + c.heapTerm(ev.st, ln) + " " + x.T + ")", S: "Int"}, nil
			}
		}
		return SVal{}, fmt.Errorf("len of sort %s", x.S)
	case "indom":
		a, err := ev.evalArgs(e.Args)
		if err != nil {
			return SVal{}, err
		}
		if a[0].GT != nil {
			if m, ok := a[0].GT.Underlying().(*types.Map); ok {
				dom, _, _ := c.eng.mapKeys(m)
				return SVal{T: "(select (select " + c.heapTerm(ev.st, dom) + " " + a[0].T + ") " + a[1].T + ")", S: "Bool"}, nil
			}
		}
		return SVal{}, fmt.Errorf("indom needs a map")
	case "has":
		a, err := ev.evalArgs(e.Args)
		if err != nil {
			return SVal{}, err
		}
		return SVal{T: "(select " + a[0].T + " " + a[1].T + ")", S: "Bool"}, nil
	case "setadd":
		a, err := ev.evalArgs(e.Args)
		if err != nil {
			return SVal{}, err
		}
		return SVal{T: "(store " + a[0].T + " " + a[1].T + " true)", S: a[0].S}, nil
	case "snoc":
		a, err := ev.evalArgs(e.Args)
		if err != nil {
			return SVal{}, err
		}
		if !isSliceSort(a[0].S) {
			return SVal{}, fmt.Errorf("snoc on non-sequence")
		}
		v := Val{T: a[0].T, S: a[0].S}
		return SVal{T: c.mkSlice(a[0].S, "(store "+c.slArr(v)+" "+plus(c.slOff(v), c.slLen(v))+" "+a[1].T+")", c.slOff(v), "(+ "+c.slLen(v)+" 1)"), S: a[0].S, GT: a[0].GT}, nil
	case "as":
		// as(x, pkg.Type): view an interface value as *pkg.Type (for field access); no check implied
		x, err := ev.eval(e.Args[0])
		if err != nil {
			return SVal{}, err
		}
		te, err := parseTypeString(e.Args[1].String())
		if err != nil {
			return SVal{}, err
		}
		_, gt := c.eng.resolveType(ev.pkg, te)
		if gt == nil {
			return SVal{}, fmt.Errorf("as: unknown type %s", e.Args[1].String())
		}
		return SVal{T: x.T, S: "Int", GT: types.NewPointer(gt)}, nil
	case "typeis":
		// typeis(x, pkg.Type) : dynamic type of x is *pkg.Type
		x, err := ev.eval(e.Args[0])
		if err != nil {
			return SVal{}, err
		}
		tn := e.Args[1].String()
		if !strings.Contains(tn, ".") {
			tn = ev.pkg + "." + tn
		}
		return SVal{T: "(and (not (= " + x.T + " 0)) (= (typeOf " + x.T + ") " + c.eng.tag("*"+tn) + "))", S: "Bool"}, nil
	case "boxis":
		x, err := ev.eval(e.Args[0])
		if err != nil {
			return SVal{}, err
		}
		tn := e.Args[1].String()
		if !strings.Contains(tn, ".") {
			tn = ev.pkg + "." + tn
		}
		return SVal{T: "(and (not (= " + x.T + " 0)) (= (typeOf " + x.T + ") " + c.eng.tag(tn) + "))", S: "Bool"}, nil
	case "fresh":
		x, err := ev.eval(e.Args[0])
		if err != nil {
			return SVal{}, err
		}
		return SVal{T: "(and (<= " + c.nextRef(ev.old) + " " + x.T + ") (< " + x.T + " " + c.nextRef(ev.st) + "))", S: "Bool"}, nil
	case "allocated":
		x, err := ev.eval(e.Args[0])
		if err != nil {
			return SVal{}, err
		}
		return SVal{T: "(and (< 0 " + x.T + ") (< " + x.T + " " + c.nextRef(ev.st) + "))", S: "Bool"}, nil
	case "pcs":
		a, err := ev.evalArgs(e.Args)
		if err != nil {
			return SVal{}, err
		}
		c.eng.sliceSort("Str")
		arr := c.eng.zero("(Array Int Str)")
		for k, x := range a {
			if x.S != "Str" {
				return SVal{}, fmt.Errorf("pcs: argument %d is not a string", k)
			}
			arr = fmt.Sprintf("(store %s %d %s)", arr, k, x.T)
		}
		return SVal{T: c.mkSlice("Sl.Str", arr, "0", fmt.Sprint(len(a))), S: "Sl.Str"}, nil
	case "nopieces":
		c.eng.sliceSort("Str")
		return SVal{T: c.eng.zero("Sl.Str"), S: "Sl.Str"}, nil
	case "called":
		// called(f): was f called during the current turn of the loop (transition clauses) / on a path to this point?
		if len(e.Args) != 1 || e.Args[0].Op != "ident" || ev.frame == nil {
			return SVal{}, fmt.Errorf("called(name)")
		}
		var conds []string
		for _, rec := range ev.frame.calls[e.Args[0].Name] {
			if rec.blk == nil || (c.curBlk != nil && !c.blockReaches(rec.blk, c.curBlk)) {
				continue
			}
			if ev.loopBlocks != nil && !ev.loopBlocks[rec.blk] {
				continue
			}
			if r, ok := ev.frame.reach[rec.blk]; ok {
				conds = append(conds, r)
			}
		}
		if len(conds) == 0 {
			return SVal{T: "false", S: "Bool"}, nil
		}
		if len(conds) == 1 {
			return SVal{T: conds[0], S: "Bool"}, nil
		}
		return SVal{T: "(or " + strings.Join(conds, " ") + ")", S: "Bool"}, nil
	case "lastresult", "lastarg":
		// lastresult(f, k) / lastarg(f, k): k-th result / argument (receiver first) of the most recent call to the
		// function or method named f made by the function under verification (exit clauses)
		if len(e.Args) != 2 || e.Args[0].Op != "ident" || e.Args[1].Op != "int" {
			return SVal{}, fmt.Errorf("%s(name, index)", e.Name)
		}
		if ev.frame == nil {
			return SVal{}, fmt.Errorf("%s outside a function body", e.Name)
		}
		recs := ev.frame.calls[e.Args[0].Name]
		k, _ := strconv.Atoi(e.Args[1].Name)
		// the most recent call whose block lies on a path to the point of evaluation
		var vs []Val
		found := false
		for i := len(recs) - 1; i >= 0; i-- {
			if c.curBlk == nil || recs[i].blk == nil || c.blockReaches(recs[i].blk, c.curBlk) {
				vs = recs[i].res
				if e.Name == "lastarg" {
					vs = recs[i].args
				}
				found = true
				break
			}
		}
		if !found && len(recs) == 0 {
			// no call processed yet: take the sort from the callee's signature
			for key, fn := range c.eng.funcs {
				if strings.HasSuffix(key, "."+e.Args[0].Name) && fn != nil {
					var t types.Type
					if e.Name == "lastresult" {
						if k >= 0 && k < fn.Signature.Results().Len() {
							t = fn.Signature.Results().At(k).Type()
						}
					} else if k >= 0 && k < len(fn.Params) {
						t = fn.Params[k].Type()
					}
					if t != nil {
						srt := c.eng.sortOf(t)
						return SVal{T: c.fresh("nocall."+e.Args[0].Name, srt), S: srt, GT: t}, nil
					}
				}
			}
		}
		if !found && len(recs) > 0 {
			// no call on a path to this point: the value is arbitrary here (clauses guard with called(f) or a path condition)
			vs = recs[0].res
			if e.Name == "lastarg" {
				vs = recs[0].args
			}
			if k >= 0 && k < len(vs) {
				return SVal{T: c.fresh("nocall."+e.Args[0].Name, vs[k].S), S: vs[k].S, GT: vs[k].GT}, nil
			}
		}
		if !found || k < 0 || k >= len(vs) {
			return SVal{}, fmt.Errorf("%s: no call to %s (or no such index) on a path to this point", e.Name, e.Args[0].Name)
		}
		return SVal{T: vs[k].T, S: vs[k].S, GT: vs[k].GT}, nil
	case "mk":
		// mk(pkg.Type, field values in declaration order): a struct value
		if len(e.Args) < 1 {
			return SVal{}, fmt.Errorf("mk needs a type")
		}
		te, terr := parseTypeString(e.Args[0].String())
		if terr != nil {
			return SVal{}, terr
		}
		srt, gt := c.eng.resolveType(ev.pkg, te)
		dt, ok := c.eng.dtypes[srt]
		if !ok || isSliceSort(srt) {
			return SVal{}, fmt.Errorf("mk: %s is not a struct type", e.Args[0].String())
		}
		a, err := ev.evalArgs(e.Args[1:])
		if err != nil {
			return SVal{}, err
		}
		if len(a) != len(dt.Fields) {
			return SVal{}, fmt.Errorf("mk: %s has %d fields", srt, len(dt.Fields))
		}
		var ts []string
		for i, x := range a {
			if x.S != dt.Fields[i].Sort {
				return SVal{}, fmt.Errorf("mk: field %s has sort %s, got %s", dt.Fields[i].Name, dt.Fields[i].Sort, x.S)
			}
			ts = append(ts, x.T)
		}
		return SVal{T: app(dt.Ctor, ts...), S: srt, GT: gt}, nil
	case "sprintf":
		if len(e.Args) == 0 || e.Args[0].Op != "str" {
			return SVal{}, fmt.Errorf("sprintf needs a literal format")
		}
		a, err := ev.evalArgs(e.Args[1:])
		if err != nil {
			return SVal{}, err
		}
		var ts, ss []string
		for _, x := range a {
			ts = append(ts, x.T)
			ss = append(ss, x.S)
		}
		return SVal{T: c.eng.sprintfTerm(e.Args[0].Name, ts, ss), S: "Str"}, nil
	}
	// builtin string / library vocabulary
	if sig, ok := builtinSpecFuncs[e.Name]; ok {
		a, err := ev.evalArgs(e.Args)
		if err != nil {
			return SVal{}, err
		}
		if len(a) != len(sig.args) {
			return SVal{}, fmt.Errorf("%s expects %d arguments", e.Name, len(sig.args))
		}
		var ts []string
		for i, x := range a {
			if x.S != sig.args[i] {
				return SVal{}, fmt.Errorf("%s: argument %d has sort %s, want %s", e.Name, i, x.S, sig.args[i])
			}
			ts = append(ts, x.T)
		}
		return SVal{T: app(e.Name, ts...), S: sig.res}, nil
	}
	if p, ok := c.eng.cs.Preds[e.Name]; ok {
		n, err := ev.enterPred(p, e)
		if err != nil {
			return SVal{}, err
		}
		return n.eval(p.Body)
	}
	if sf, ok := c.eng.cs.Specs[e.Name]; ok {
		a, err := ev.evalArgs(e.Args)
		if err != nil {
			return SVal{}, err
		}
		if len(a) != len(sf.Params) {
			return SVal{}, fmt.Errorf("spec %s expects %d arguments", e.Name, len(sf.Params))
		}
		var ts, ss []string
		for i, prm := range sf.Params {
			s, _ := c.eng.resolveType(sf.Pkg, prm.Type)
			if a[i].S != s {
				return SVal{}, fmt.Errorf("spec %s: argument %d has sort %s, want %s", e.Name, i, a[i].S, s)
			}
			ts = append(ts, a[i].T)
			ss = append(ss, s)
		}
		rs, gt := c.eng.resolveType(sf.Pkg, sf.Result)
		c.eng.ufunc("sp."+e.Name, ss, rs)
		return SVal{T: app("sp."+e.Name, ts...), S: rs, GT: gt}, nil
	}
	return SVal{}, fmt.Errorf("unknown function %s in specification", e.Name)
}

type bsig struct {
	args []string
	res  string
}

// vocabulary shared between the library models and the specifications
var builtinSpecFuncs = map[string]bsig{
	"slen":       {[]string{"Str"}, "Int"},
	"sconcat":     {[]string{"Str", "Str"}, "Str"},
	"substr":     {[]string{"Str", "Int", "Int"}, "Str"},
	"sbyte":      {[]string{"Str", "Int"}, "Int"},
	"runeStr":    {[]string{"Int"}, "Str"},
	"byteStr":    {[]string{"Int"}, "Str"},
	"itoa":       {[]string{"Int"}, "Str"},
	"runeAt":     {[]string{"Str", "Int"}, "Int"},
	"sizeAt":     {[]string{"Str", "Int"}, "Int"},
	"hasSuffix":  {[]string{"Str", "Str"}, "Bool"},
	"hasPrefix":  {[]string{"Str", "Str"}, "Bool"},
	"containsStr": {[]string{"Str", "Str"}, "Bool"},
	"replaceAll": {[]string{"Str", "Str", "Str"}, "Str"},
	"splitStr":   {[]string{"Str", "Str"}, "Sl.Str"},
	"joinStr":    {[]string{"Sl.Str", "Str"}, "Str"},
	"trimRightSpace": {[]string{"Str"}, "Str"},
	"bstr2":      {[]string{"Sl.Str", "Sl.Str"}, "Str"},
	"piecesOf":   {[]string{"Str"}, "Sl.Str"},
	"markersOf":  {[]string{"Str"}, "Sl.Str"},
	"marker":     {[]string{"Int", "Str", "Int"}, "Str"},
	"markerLine": {[]string{"Str"}, "Int"},
	"markerFile": {[]string{"Str"}, "Str"},
	"markerAt":   {[]string{"Str"}, "Int"},
	"uIsLetter":  {[]string{"Int"}, "Bool"},
	"uIsDigit":   {[]string{"Int"}, "Bool"},
	"uIsSpace":   {[]string{"Int"}, "Bool"},
	"intOf":      {[]string{"Str"}, "Int"},
	"parseOK":    {[]string{"Str"}, "Bool"},
	"typeOf":     {[]string{"Int"}, "Int"},
	"errText":    {[]string{"Int"}, "Str"},
	"godiv":      {[]string{"Int", "Int"}, "Int"},
	"gorem":      {[]string{"Int", "Int"}, "Int"},
	"strlt":      {[]string{"Str", "Str"}, "Bool"},
}

// modifiesObjects evaluates modifies clauses to heap key -> object terms ("*" = any object).
func (ev *EvalCtx) modifiesObjects(cls []*Clause) (map[string][]string, error) {
	c := ev.c
	out := map[string][]string{}
	for _, cl := range cls {
		if strings.TrimSpace(cl.Text) == "nothing" {
			continue
		}
		for _, e := range cl.Exprs {
			// ghost variable
			if e.Op == "ident" {
				if _, ok := c.eng.cs.Ghosts[e.Name]; ok {
					out["ghost:"+e.Name] = append(out["ghost:"+e.Name], "*")
					continue
				}
			}
			if e.Op == "call" && e.Name == "allof" {
				// allof(pkg.Type.field): any object's field
				out["H."+e.Args[0].String()] = append(out["H."+e.Args[0].String()], "*")
				continue
			}
			if e.Op == "unary" && e.Name == "*" {
				e = e.Args[0]
			}
			if e.Op == "call" && e.Name == "fields" && len(e.Args) == 1 {
				// fields(x): every field of the object x points to
				e = e.Args[0]
			} else if e.Op == "select" {
				base, err := ev.eval(e.Args[0])
				if err != nil {
					return out, err
				}
				if base.GT != nil {
					if n, s := ptrStruct(base.GT); n != nil {
						if n.Obj().Name() == "Builder" && n.Obj().Pkg().Path() == "strings" {
							out["H.strings.Builder."+e.Name] = append(out["H.strings.Builder."+e.Name], base.T)
							continue
						}
						found := false
						for i := 0; i < s.NumFields(); i++ {
							if s.Field(i).Name() == e.Name {
								k := c.eng.heapKeyField(n, e.Name, c.eng.sortOf(s.Field(i).Type()))
								out[k] = append(out[k], base.T)
								found = true
							}
						}
						for _, gf := range c.eng.ghostFields[namedKey(n)] {
							if gf.Name == e.Name {
								out["H."+namedKey(n)+"."+gf.Name] = append(out["H."+namedKey(n)+"."+gf.Name], base.T)
								found = true
							}
						}
						if found {
							continue
						}
					}
				}
				// fallthrough: maybe the selected value itself is a map / pointer (x.m)
			}
			v, err := ev.eval(e)
			if err != nil {
				return out, err
			}
			if v.GT == nil {
				return out, fmt.Errorf("modifies %s: not a heap location", e.String())
			}
			switch u := v.GT.Underlying().(type) {
			case *types.Map:
				a, b, l := c.eng.mapKeys(u)
				out[a] = append(out[a], v.T)
				out[b] = append(out[b], v.T)
				out[l] = append(out[l], v.T)
			case *types.Pointer:
				if n, _ := ptrStruct(v.GT); n != nil {
					var ks []string
					if n.Obj().Name() == "Builder" && n.Obj().Pkg() != nil && n.Obj().Pkg().Path() == "strings" {
						ks = builderKeys
					} else {
						ks = c.eng.structKeys(n)
					}
					for _, k := range ks {
						out[k] = append(out[k], v.T)
					}
				} else {
					k := c.eng.boxKey(u.Elem())
					out[k] = append(out[k], v.T)
				}
			default:
				return out, fmt.Errorf("modifies %s: not a heap location", e.String())
			}
		}
	}
	return out, nil
}

// useAxiom instantiates a parametrised axiom: use Name(args)
func (ev *EvalCtx) useAxiom(u *Clause) {
	c := ev.c
	e := u.Expr
	if e.Op != "call" {
		c.errorf("%s: use needs Name(args)", u.Where)
		return
	}
	if e.Name == "pigeonhole" && len(e.Args) == 1 {
		// built-in mathematical lemma (not proved by SMT): a map with n integer keys, all in [0,n), contains every key in [0,n)
		m, err := ev.eval(e.Args[0])
		if err != nil || m.GT == nil {
			c.errorf("%s: use pigeonhole: %v", u.Where, err)
			return
		}
		mt, ok := m.GT.Underlying().(*types.Map)
		if !ok || c.eng.sortOf(mt.Key()) != "Int" {
			c.errorf("%s: use pigeonhole needs a map with integer keys", u.Where)
			return
		}
		dom, _, ln := c.eng.mapKeys(mt)
		d := "(select " + c.heapTerm(ev.st, dom) + " " + m.T + ")"
		l := "(select " + c.heapTerm(ev.st, ln) + " " + m.T + ")"
		c.usedAxioms["pigeonhole (finite maps)"] = true
		c.assume(ev.reach, "(=> (forall ((k! Int)) (! (=> (select "+d+" k!) (and (<= 0 k!) (< k! "+l+"))) :pattern ((select "+d+" k!)))) (forall ((k! Int)) (! (=> (and (<= 0 k!) (< k! "+l+")) (select "+d+" k!)) :pattern ((select "+d+" k!)))))")
		return
	}
	if e.Name == "card" && len(e.Args) == 1 {
		// built-in: cardinality facts of a Go map (len == 0 iff no key)
		m, err := ev.eval(e.Args[0])
		if err != nil || m.GT == nil {
			c.errorf("%s: use card: %v", u.Where, err)
			return
		}
		mt, ok := m.GT.Underlying().(*types.Map)
		if !ok {
			c.errorf("%s: use card needs a map", u.Where)
			return
		}
		dom, _, ln := c.eng.mapKeys(mt)
		ks := c.eng.sortOf(mt.Key())
		d := "(select " + c.heapTerm(ev.st, dom) + " " + m.T + ")"
		l := "(select " + c.heapTerm(ev.st, ln) + " " + m.T + ")"
		c.assume(ev.reach, "(<= 0 "+l+")")
		c.assume(ev.reach, "(=> (= "+l+" 0) (forall ((k! "+ks+")) (! (not (select "+d+" k!)) :pattern ((select "+d+" k!)))))")
		c.assume(ev.reach, "(=> (< 0 "+l+") (exists ((k! "+ks+")) (select "+d+" k!)))")
		return
	}
	ax, ok := c.eng.cs.Axioms[e.Name]
	if !ok {
		c.errorf("%s: unknown axiom %s", u.Where, e.Name)
		return
	}
	a, err := ev.evalArgs(e.Args)
	if err != nil {
		if !ev.quiet {
			c.errorf("%s: use %s: %v", u.Where, e.Name, err)
		}
		return
	}
	if len(a) != len(ax.Params) {
		c.errorf("%s: axiom %s expects %d arguments", u.Where, e.Name, len(ax.Params))
		return
	}
	n := *ev
	n.vars = map[string]SVal{}
	for i, p := range ax.Params {
		_, gt := c.eng.resolveType(ax.Pkg, p.Type)
		v := a[i]
		if gt != nil {
			v.GT = gt
		}
		n.vars[p.Name] = v
	}
	n.pkg = ax.Pkg
	n.frame = nil
	body, err := n.evalBool(ax.Body)
	if err != nil {
		c.errorf("%s: axiom %s: %v", ax.Where, ax.Name, err)
		return
	}
	c.usedAxioms[ax.Name] = true
	c.assume(ev.reach, body)
}

// enterPred binds the parameters of a pred (macro) to the evaluated arguments of a call.
func (ev *EvalCtx) enterPred(p *Pred, e *Expr) (*EvalCtx, error) {
	c := ev.c
	if ev.depth > 20 {
		return nil, fmt.Errorf("pred expansion too deep (recursive pred %s?)", e.Name)
	}
	am := *ev
	am.mode = 0
	a, err := am.evalArgs(e.Args)
	if err != nil {
		return nil, err
	}
	if len(a) != len(p.Params) {
		return nil, fmt.Errorf("pred %s expects %d arguments", e.Name, len(p.Params))
	}
	n := *ev
	n.vars = map[string]SVal{}
	for k, v := range ev.vars {
		if strings.Contains(v.T, "!q") || strings.HasPrefix(k, "$") || strings.HasPrefix(v.T, "sk.") || strings.HasPrefix(v.T, "wit.") {
			n.vars[k] = v
		}
	}
	for i, prm := range p.Params {
		_, gt := c.eng.resolveType(p.Pkg, prm.Type)
		v := a[i]
		if gt != nil {
			v.GT = gt
		}
		n.vars[prm.Name] = v
	}
	n.pkg = p.Pkg
	n.frame = nil
	n.depth++
	return &n, nil
}
