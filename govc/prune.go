package main

import (
	"strings"
)

// pruneQuery drops, from an SMT-LIB query, every top-level universally quantified assertion that can never be
// instantiated: all of its patterns mention a function symbol that occurs nowhere else in the query (neither in the
// ground part nor in an assertion that is kept). Dropping assumptions is always sound; what it buys is smaller and
// far more stable queries (the text of a query no longer depends on axioms about functions it never mentions).
func pruneQuery(q string) string {
	lines := strings.Split(q, "\n")
	type ax struct {
		idx   int
		pats  [][]string // alternatives; each a list of head symbols
		syms  map[string]bool
		alive bool
	}
	var axs []*ax
	occ := map[string]bool{}
	addSyms := func(s string, into map[string]bool) {
		for _, t := range tokenizeSyms(s) {
			into[t] = true
		}
	}
	for i, ln := range lines {
		if strings.HasPrefix(ln, "(assert (forall ") && strings.Contains(ln, ":pattern") {
			a := &ax{idx: i, syms: map[string]bool{}}
			a.pats = patternHeads(ln)
			if len(a.pats) == 0 {
				addSyms(ln, occ)
				continue
			}
			addSyms(ln, a.syms)
			axs = append(axs, a)
			continue
		}
		if strings.HasPrefix(ln, "(declare-") || strings.HasPrefix(ln, "(define-") || strings.HasPrefix(ln, "(set-") || strings.HasPrefix(ln, ";") {
			if strings.HasPrefix(ln, "(define-") {
				addSyms(ln, occ)
			}
			continue
		}
		addSyms(ln, occ)
	}
	for changed := true; changed; {
		changed = false
		for _, a := range axs {
			if a.alive {
				continue
			}
			for _, alt := range a.pats {
				ok := true
				for _, h := range alt {
					if !occ[h] {
						ok = false
						break
					}
				}
				if ok {
					a.alive = true
					break
				}
			}
			if a.alive {
				changed = true
				for s := range a.syms {
					occ[s] = true
				}
			}
		}
	}
	drop := map[int]bool{}
	for _, a := range axs {
		if !a.alive {
			drop[a.idx] = true
		}
	}
	if len(drop) == 0 {
		return q
	}
	var sb strings.Builder
	for i, ln := range lines {
		if drop[i] {
			continue
		}
		sb.WriteString(ln)
		if i < len(lines)-1 {
			sb.WriteString("\n")
		}
	}
	return sb.String()
}

func tokenizeSyms(s string) []string {
	var out []string
	cur := strings.Builder{}
	flush := func() {
		if cur.Len() > 0 {
			out = append(out, cur.String())
			cur.Reset()
		}
	}
	for _, r := range s {
		switch r {
		case '(', ')', ' ', '\t':
			flush()
		default:
			cur.WriteRune(r)
		}
	}
	flush()
	return out
}

// patternHeads returns, for each ":pattern (t1 t2 ...)" of the outermost quantifier of an assertion line, the head
// symbols of the terms (an alternative); nil when the line cannot be analysed (it is then kept).
func patternHeads(ln string) [][]string {
	// only the outermost quantifier matters: its patterns are the last ones before the closing of "(! ... )"
	// nested quantifiers have their own patterns; being conservative, collect all patterns and require, for
	// liveness, one alternative among those of the outermost quantifier. The outermost "(!" is the first one.
	start := strings.Index(ln, "(! ")
	if start < 0 {
		return nil
	}
	// find matching paren of this "(!"
	depth := 0
	end := -1
	for i := start; i < len(ln); i++ {
		if ln[i] == '(' {
			depth++
		} else if ln[i] == ')' {
			depth--
			if depth == 0 {
				end = i
				break
			}
		}
	}
	if end < 0 {
		return nil
	}
	body := ln[start:end]
	// patterns of the outermost annotation are at depth 1 within body
	var alts [][]string
	depth = 0
	for i := 0; i < len(body); i++ {
		if body[i] == '(' {
			depth++
		} else if body[i] == ')' {
			depth--
		} else if depth == 1 && strings.HasPrefix(body[i:], ":pattern (") {
			// parse the list
			j := i + len(":pattern ")
			d := 0
			k := j
			for ; k < len(body); k++ {
				if body[k] == '(' {
					d++
				} else if body[k] == ')' {
					d--
					if d == 0 {
						break
					}
				}
			}
			list := body[j+1 : k]
			var heads []string
			d = 0
			for x := 0; x < len(list); x++ {
				if list[x] == '(' {
					if d == 0 {
						y := x + 1
						for y < len(list) && list[y] != ' ' && list[y] != ')' {
							y++
						}
						heads = append(heads, list[x+1:y])
					}
					d++
				} else if list[x] == ')' {
					d--
				}
			}
			if len(heads) == 0 {
				return nil
			}
			alts = append(alts, heads)
			i = k
		}
	}
	return alts
}
