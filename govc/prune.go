package main

import (
	"strings"
)

const preludeEndMarker = "; --- end of prelude ---"

// pruneQuery drops, from the prelude part of an SMT-LIB query (vocabulary axioms, literal facts, global axioms),
// what can never take part in a proof of this query: a quantified assertion none of whose patterns can ever match
// (some function symbol of every pattern occurs nowhere in the rest of the query, transitively through the assertions
// that are kept), and a ground fact about a string literal that the rest of the query never mentions. Dropping
// assumptions is always sound; what it buys is smaller and far more stable queries: the text of a query no longer
// depends on axioms about functions it never mentions.
func pruneQuery(q string) string {
	cut := strings.Index(q, preludeEndMarker)
	if cut < 0 {
		return q
	}
	pre := strings.Split(q[:cut], "\n")
	core := q[cut:]
	occ := map[string]bool{}
	for _, t := range tokenizeSyms(core) {
		occ[t] = true
	}
	type cand struct {
		idx   int
		alts  [][]string // alternatives: all symbols of one (multi-)pattern; nil for literal facts
		lits  []string   // literal facts: the literals mentioned
		syms  []string
		alive bool
	}
	var cands []*cand
	for i, ln := range pre {
		switch {
		case strings.HasPrefix(ln, "(assert (forall ") && strings.Contains(ln, ":pattern"):
			alts := patternSyms(ln)
			if alts == nil {
				for _, t := range tokenizeSyms(ln) {
					occ[t] = true
				}
				continue
			}
			cands = append(cands, &cand{idx: i, alts: alts, syms: tokenizeSyms(ln)})
		case strings.HasPrefix(ln, "(assert (= (slen lit!") || strings.HasPrefix(ln, "(assert (= (runeStr ") || strings.HasPrefix(ln, "(assert (= (byteStr ") || strings.HasPrefix(ln, "(assert (= (sconcat lit!"):
			var lits []string
			toks := tokenizeSyms(ln)
			for _, t := range toks {
				if strings.HasPrefix(t, "lit!") {
					lits = append(lits, t)
				}
			}
			cands = append(cands, &cand{idx: i, lits: lits, syms: toks})
		case strings.HasPrefix(ln, "(assert (distinct"):
			// kept, but it does not make its literals "mentioned"
		case strings.HasPrefix(ln, "(assert "), strings.HasPrefix(ln, "(define-"):
			for _, t := range tokenizeSyms(ln) {
				occ[t] = true
			}
		}
	}
	for changed := true; changed; {
		changed = false
		for _, a := range cands {
			if a.alive {
				continue
			}
			if a.alts == nil {
				ok := true
				for _, l := range a.lits {
					if !occ[l] {
						ok = false
						break
					}
				}
				// (runeStr n) / (byteStr n) may occur as terms without their literal being mentioned
				if !ok && len(a.syms) > 2 && (a.syms[2] == "runeStr" || a.syms[2] == "byteStr") && occ[a.syms[2]] {
					ok = true
				}
				a.alive = ok
			} else {
				for _, alt := range a.alts {
					ok := true
					for _, h := range alt {
						if !occ[h] {
							ok = false
							break
						}
					}
					if ok {
						a.alive = true
						break
					}
				}
			}
			if a.alive {
				changed = true
				for _, s := range a.syms {
					occ[s] = true
				}
			}
		}
	}
	drop := map[int]bool{}
	for _, a := range cands {
		if !a.alive {
			drop[a.idx] = true
		}
	}
	if len(drop) == 0 {
		return q
	}
	var sb strings.Builder
	for i, ln := range pre {
		if drop[i] {
			continue
		}
		sb.WriteString(ln)
		if i < len(pre)-1 {
			sb.WriteString("\n")
		}
	}
	sb.WriteString(core)
	return sb.String()
}

func tokenizeSyms(s string) []string {
	var out []string
	cur := strings.Builder{}
	flush := func() {
		if cur.Len() > 0 {
			out = append(out, cur.String())
			cur.Reset()
		}
	}
	for _, r := range s {
		switch r {
		case '(', ')', ' ', '\t', '\n':
			flush()
		default:
			cur.WriteRune(r)
		}
	}
	flush()
	return out
}

// builtin symbols of SMT-LIB that say nothing about relevance
var smtBuiltin = map[string]bool{"select": true, "store": true, "+": true, "-": true, "*": true, "=": true, "<": true, "<=": true, ">": true, ">=": true,
	"and": true, "or": true, "not": true, "=>": true, "ite": true, "div": true, "mod": true, "true": true, "false": true, "as": true, "const": true}

// patternSyms returns, for each ":pattern (t1 t2 ...)" of the outermost quantifier of an assertion line, the function
// symbols of its terms (bound variables, numerals and SMT-LIB builtins left out); nil when the line cannot be
// analysed (it is then kept).
func patternSyms(ln string) [][]string {
	// bound variables of the outermost quantifier
	bstart := strings.Index(ln, "(forall (")
	if bstart < 0 {
		return nil
	}
	bound := map[string]bool{}
	i := bstart + len("(forall (")
	depth := 1
	for i < len(ln) && depth > 0 {
		if ln[i] == '(' {
			depth++
			if depth == 2 {
				j := i + 1
				for j < len(ln) && ln[j] != ' ' && ln[j] != ')' {
					j++
				}
				bound[ln[i+1:j]] = true
			}
		} else if ln[i] == ')' {
			depth--
		}
		i++
	}
	start := strings.Index(ln[i:], "(! ")
	if start < 0 {
		return nil
	}
	start += i
	depth = 0
	end := -1
	for k := start; k < len(ln); k++ {
		if ln[k] == '(' {
			depth++
		} else if ln[k] == ')' {
			depth--
			if depth == 0 {
				end = k
				break
			}
		}
	}
	if end < 0 {
		return nil
	}
	body := ln[start:end]
	var alts [][]string
	depth = 0
	for k := 0; k < len(body); k++ {
		if body[k] == '(' {
			depth++
		} else if body[k] == ')' {
			depth--
		} else if depth == 1 && strings.HasPrefix(body[k:], ":pattern (") {
			j := k + len(":pattern ")
			d := 0
			m := j
			for ; m < len(body); m++ {
				if body[m] == '(' {
					d++
				} else if body[m] == ')' {
					d--
					if d == 0 {
						break
					}
				}
			}
			var syms []string
			for _, t := range tokenizeSyms(body[j : m+1]) {
				if bound[t] || smtBuiltin[t] || (t[0] >= '0' && t[0] <= '9') {
					continue
				}
				syms = append(syms, t)
			}
			if len(syms) == 0 {
				return nil // a pattern over builtins only: always potentially matching
			}
			alts = append(alts, syms)
			k = m
		}
	}
	return alts
}
