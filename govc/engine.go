package main

import (
	"strconv"
	"sync"
	"fmt"
	"go/ast"
	"go/token"
	"go/types"
	"sort"
	"strings"

	"golang.org/x/tools/go/packages"
	"golang.org/x/tools/go/ssa"
	"golang.org/x/tools/go/ssa/ssautil"
)

const repoMod = "github.com/huderlem/poryscript"

type DField struct {
	Name string // go field name
	Sort string
	Acc  string // accessor symbol
	Type types.Type
}

type DType struct {
	Name   string
	Ctor   string
	Fields []DField
	Go     types.Type
}

type Engine struct {
	repo    string
	fset    *token.FileSet
	pkgs    []*packages.Package
	prog    *ssa.Program
	spkgs   map[string]*ssa.Package      // by package name
	tpkgs   map[string]*packages.Package // by package name
	cs      *Contracts
	funcs   map[string]*ssa.Function // by key
	keyOf   map[*ssa.Function]string
	allFns  []*ssa.Function
	sccOnce sync.Once
	namesOnce sync.Once
	baseNames map[string]funcNames
	sccID   map[string]int
	callAdj map[string][]string
	modsets map[*ssa.Function]map[string]bool

	dtypes  map[string]*DType
	dtOrder []string
	heapSort map[string]string // heap key -> element sort
	heapOrder []string

	lits     map[string]string
	litOrder []string

	tags     map[string]int
	tagOrder []string

	ufuncs  map[string]string // uninterpreted function name -> declaration
	fmtOf   [][2]string
	fmtDefs []string
	constMaps map[*ssa.Global][]constKV
	zarrs map[string][2]string
	specDir string
	zarrOrder []string
	ufOrder []string

	implsCache map[string][]*ssa.Function

	ghostFields map[string][]*GhostField // struct key (pkg.Type) -> ghost fields
	audit       []string
	warnings    []string
}

func loadEngine(repo, specDir string) (*Engine, error) {
	cfg := &packages.Config{Mode: packages.LoadAllSyntax, Dir: repo, BuildFlags: []string{"-tags=verif"}}
	pkgs, err := packages.Load(cfg, "./...")
	if err != nil {
		return nil, err
	}
	var errs []string
	packages.Visit(pkgs, nil, func(p *packages.Package) {
		for _, e := range p.Errors {
			errs = append(errs, e.Error())
		}
	})
	if len(errs) > 0 {
		return nil, fmt.Errorf("repository does not compile:\n%s", strings.Join(errs, "\n"))
	}
	prog, spk := ssautil.AllPackages(pkgs, ssa.NaiveForm|ssa.GlobalDebug)
	prog.Build()
	e := &Engine{specDir: specDir, repo: repo, fset: pkgs[0].Fset, pkgs: pkgs, prog: prog,
		spkgs: map[string]*ssa.Package{}, tpkgs: map[string]*packages.Package{},
		funcs: map[string]*ssa.Function{}, keyOf: map[*ssa.Function]string{},
		dtypes: map[string]*DType{}, heapSort: map[string]string{}, lits: map[string]string{}, tags: map[string]int{},
		zarrs: map[string][2]string{}, ufuncs: map[string]string{}, implsCache: map[string][]*ssa.Function{}, ghostFields: map[string][]*GhostField{}}
	for i, p := range pkgs {
		if spk[i] == nil {
			continue
		}
		e.spkgs[p.Name] = spk[i]
		e.tpkgs[p.Name] = p
	}
	// collect functions of the repository (incl. methods and anonymous functions)
	for fn := range ssautil.AllFunctions(prog) {
		if fn.Pkg == nil || fn.Synthetic != "" {
			if fn.Pkg == nil || !strings.HasPrefix(fn.Synthetic, "") {
				continue
			}
		}
		if !strings.HasPrefix(fn.Pkg.Pkg.Path(), repoMod) {
			continue
		}
		if fn.Blocks == nil {
			continue
		}
		if fn.Synthetic != "" {
			continue
		}
		k := funcKey(fn)
		e.funcs[k] = fn
		e.keyOf[fn] = k
		e.allFns = append(e.allFns, fn)
	}
	sort.Slice(e.allFns, func(i, j int) bool { return e.keyOf[e.allFns[i]] < e.keyOf[e.allFns[j]] })
	cs, err := loadContracts(repo, specDir)
	if err != nil {
		return nil, err
	}
	e.cs = cs
	for _, gf := range cs.GFields {
		e.ghostFields[gf.Struct] = append(e.ghostFields[gf.Struct], gf)
	}
	e.lit("") // the empty string is always literal 0
	e.builderKeys()
	e.computeModsets()
	e.findConstMaps()
	return e, nil
}

// funcKey: pkgname.Func, pkgname.Recv.Method, pkgname.Func$1
func funcKey(fn *ssa.Function) string {
	pkg := ""
	if fn.Pkg != nil {
		pkg = fn.Pkg.Pkg.Name()
	} else if fn.Object() != nil && fn.Object().Pkg() != nil {
		pkg = fn.Object().Pkg().Name()
	}
	if fn.Parent() != nil {
		// anonymous function: name is like parent$1
		return funcKey(fn.Parent()) + strings.TrimPrefix(fn.Name(), fn.Parent().Name())
	}
	if recv := fn.Signature.Recv(); recv != nil {
		t := recv.Type()
		if p, ok := t.(*types.Pointer); ok {
			t = p.Elem()
		}
		if n, ok := t.(*types.Named); ok {
			return pkg + "." + n.Obj().Name() + "." + fn.Name()
		}
	}
	return pkg + "." + fn.Name()
}

func namedKey(n *types.Named) string {
	if n.Obj().Pkg() == nil {
		return n.Obj().Name()
	}
	return n.Obj().Pkg().Name() + "." + n.Obj().Name()
}

// ---------- sorts ----------

func isRefType(t types.Type) bool {
	switch u := t.Underlying().(type) {
	case *types.Pointer, *types.Interface, *types.Map, *types.Signature, *types.Chan:
		return true
	case *types.Basic:
		return u.Kind() == types.UnsafePointer || u.Kind() == types.UntypedNil
	}
	return false
}

func (e *Engine) sortOf(t types.Type) string {
	switch u := t.Underlying().(type) {
	case *types.Basic:
		info := u.Info()
		switch {
		case info&types.IsBoolean != 0:
			return "Bool"
		case info&types.IsInteger != 0:
			return "Int"
		case info&types.IsString != 0:
			return "Str"
		case u.Kind() == types.UntypedNil || u.Kind() == types.UnsafePointer:
			return "Int"
		case info&types.IsFloat != 0:
			return "Real"
		}
		return "Int"
	case *types.Pointer, *types.Interface, *types.Map, *types.Signature, *types.Chan:
		return "Int"
	case *types.Slice:
		return e.sliceSort(e.sortOf(u.Elem()))
	case *types.Array:
		return "(Array Int " + e.sortOf(u.Elem()) + ")"
	case *types.Struct:
		if u.NumFields() == 0 {
			return "Int"
		}
		name := ""
		if n, ok := t.(*types.Named); ok {
			name = "S." + namedKey(n)
		} else if a, ok := t.(*types.Alias); ok {
			return e.sortOf(types.Unalias(a))
		} else {
			name = fmt.Sprintf("S.anon%d", len(e.dtOrder))
		}
		if _, ok := e.dtypes[name]; !ok {
			dt := &DType{Name: name, Ctor: "mk." + name[2:], Go: t}
			e.dtypes[name] = dt // pre-register to stop recursion
			for i := 0; i < u.NumFields(); i++ {
				f := u.Field(i)
				dt.Fields = append(dt.Fields, DField{Name: f.Name(), Sort: e.sortOf(f.Type()), Acc: name[2:] + ".." + f.Name(), Type: f.Type()})
			}
			e.dtOrder = append(e.dtOrder, name)
		}
		return name
	case *types.Tuple:
		return "Tuple"
	}
	return "Int"
}

func sortID(s string) string {
	r := strings.NewReplacer("(", "", ")", "", " ", "_")
	return r.Replace(s)
}

func (e *Engine) sliceSort(elem string) string {
	name := "Sl." + sortID(elem)
	if _, ok := e.dtypes[name]; !ok {
		dt := &DType{Name: name, Ctor: "mk." + name}
		dt.Fields = []DField{
			{Name: "arr", Sort: "(Array Int " + elem + ")", Acc: name + "..arr"},
			{Name: "len", Sort: "Int", Acc: name + "..len"},
		}
		e.dtypes[name] = dt
		e.dtOrder = append(e.dtOrder, name)
	}
	return name
}

func (e *Engine) sliceElemSort(s string) string {
	dt := e.dtypes[s]
	if dt == nil || !strings.HasPrefix(s, "Sl.") {
		panic("not a slice sort: " + s)
	}
	a := dt.Fields[0].Sort
	return strings.TrimSuffix(strings.TrimPrefix(a, "(Array Int "), ")")
}

func isSliceSort(s string) bool { return strings.HasPrefix(s, "Sl.") }

func (e *Engine) zero(sort string) string {
	switch sort {
	case "Int":
		return "0"
	case "Bool":
		return "false"
	case "Str":
		return e.lit("")
	case "Real":
		return "0.0"
	}
	if strings.HasPrefix(sort, "(Array ") {
		// (Array K V)
		_, v := splitArraySort(sort)
		zv := e.zero(v)
		if strings.Contains(zv, "lit!") || strings.Contains(zv, "zarr.") {
			// cvc5 wants a value as default of a constant array: use a named array with an axiom
			name := "zarr." + sortID(sort)
			if _, ok := e.zarrs[name]; !ok {
				e.zarrs[name] = [2]string{sort, zv}
				e.zarrOrder = append(e.zarrOrder, name)
			}
			return name
		}
		return "((as const " + sort + ") " + zv + ")"
	}
	if dt, ok := e.dtypes[sort]; ok {
		if len(dt.Fields) == 0 {
			return dt.Ctor
		}
		var parts []string
		for _, f := range dt.Fields {
			parts = append(parts, e.zero(f.Sort))
		}
		return "(" + dt.Ctor + " " + strings.Join(parts, " ") + ")"
	}
	panic("zero: unknown sort " + sort)
}

func splitArraySort(s string) (string, string) {
	// s = "(Array K V)" where K and V may be parenthesised
	in := strings.TrimSuffix(strings.TrimPrefix(s, "(Array "), ")")
	depth := 0
	for i := 0; i < len(in); i++ {
		switch in[i] {
		case '(':
			depth++
		case ')':
			depth--
		case ' ':
			if depth == 0 {
				return in[:i], in[i+1:]
			}
		}
	}
	panic("bad array sort " + s)
}

// ---------- literals, tags, functions ----------

func (e *Engine) lit(s string) string {
	if n, ok := e.lits[s]; ok {
		return n
	}
	n := fmt.Sprintf("lit!%d", len(e.litOrder))
	e.lits[s] = n
	e.litOrder = append(e.litOrder, s)
	return n
}

func (e *Engine) tag(name string) string {
	if _, ok := e.tags[name]; !ok {
		e.tags[name] = len(e.tagOrder) + 1
		e.tagOrder = append(e.tagOrder, name)
	}
	return fmt.Sprintf("%d", e.tags[name])
}

func (e *Engine) tagOfType(t types.Type) string {
	if p, ok := t.(*types.Pointer); ok {
		if n, ok := p.Elem().(*types.Named); ok {
			return e.tag("*" + namedKey(n))
		}
	}
	if n, ok := t.(*types.Named); ok {
		return e.tag(namedKey(n))
	}
	return e.tag(t.String())
}

// ufunc declares an uninterpreted function symbol once.
func (e *Engine) ufunc(name string, args []string, res string) string {
	if _, ok := e.ufuncs[name]; !ok {
		e.ufuncs[name] = fmt.Sprintf("(declare-fun %s (%s) %s)", name, strings.Join(args, " "), res)
		e.ufOrder = append(e.ufOrder, name)
	}
	return name
}

func app(f string, args ...string) string {
	if len(args) == 0 {
		return f
	}
	return "(" + f + " " + strings.Join(args, " ") + ")"
}

// ---------- heap keys ----------

func (e *Engine) heapKeyField(st *types.Named, field string, fsort string) string {
	k := "H." + namedKey(st) + "." + field
	if _, ok := e.heapSort[k]; !ok {
		e.heapSort[k] = fsort
		e.heapOrder = append(e.heapOrder, k)
	}
	return k
}

func (e *Engine) heapKeyRaw(k string, sort string) string {
	if _, ok := e.heapSort[k]; !ok {
		e.heapSort[k] = sort
		e.heapOrder = append(e.heapOrder, k)
	}
	return k
}

func (e *Engine) builderKeys() {
	e.sliceSort("Str")
	e.heapKeyRaw("H.strings.Builder.pieces", "Sl.Str")
	e.heapKeyRaw("H.strings.Builder.markers", "Sl.Str")
	e.heapKeyRaw("H.strings.Builder.nbytes", "Int")
}

func typeID(t types.Type) string {
	s := types.TypeString(t, func(p *types.Package) string { return p.Name() })
	r := strings.NewReplacer("*", "P", "[", "L", "]", "J", " ", "_", "{", "", "}", "", "(", "", ")", "", ",", "_", ";", "_", "/", "_")
	return r.Replace(s)
}

// boxKey: heap array for pointers to non-struct values (captured variables, *int, *string), per Go type
func (e *Engine) boxKey(t types.Type) string {
	sort := e.sortOf(t)
	return e.heapKeyRaw("Box."+typeID(t), sort)
}

func (e *Engine) mapKeys(m *types.Map) (dom, val, ln string) {
	ks, vs := e.sortOf(m.Key()), e.sortOf(m.Elem())
	id := typeID(m.Key()) + "." + typeID(m.Elem())
	dom = e.heapKeyRaw("Mdom."+id, "(Array "+ks+" Bool)")
	val = e.heapKeyRaw("Mval."+id, "(Array "+ks+" "+vs+")")
	ln = e.heapKeyRaw("Mlen."+id, "Int")
	return
}

// structFields returns the named struct behind a pointer type (or nil).
func ptrStruct(t types.Type) (*types.Named, *types.Struct) {
	p, ok := t.Underlying().(*types.Pointer)
	if !ok {
		return nil, nil
	}
	n, ok := p.Elem().(*types.Named)
	if !ok {
		return nil, nil
	}
	s, ok := n.Underlying().(*types.Struct)
	if !ok {
		return nil, nil
	}
	return n, s
}

// ---------- source helpers ----------

func (e *Engine) fileOf(pos token.Pos) (*packages.Package, *ast.File) {
	for _, p := range e.tpkgs {
		for _, f := range p.Syntax {
			if f.Pos() <= pos && pos <= f.End() {
				return p, f
			}
		}
	}
	return nil, nil
}

// funcDecl returns the AST of a function (FuncDecl or FuncLit body owner).
func (e *Engine) funcSyntax(fn *ssa.Function) ast.Node {
	return fn.Syntax()
}

// loopsInSource lists for/range statements of a function in source order (excluding nested func literals).
// constTripCount: for a loop of the form "for i := a; i < b; i++ { ... }" (also <=, !=, i += 1) with integer literals a
// and b, a body that never assigns i and at most 16 turns: the number of turns; 0 otherwise. Such a loop is unrolled by
// the engine instead of being cut at its header, and takes no loop ordinal, so that turning "f(); f(); f(); f()" into a
// counted loop (or back) needs no invariant and does not shift the loop sections of a contract.
func constTripCount(st ast.Stmt) int {
	fs, ok := st.(*ast.ForStmt)
	if !ok || fs.Init == nil || fs.Cond == nil || fs.Post == nil {
		return 0
	}
	as, ok := fs.Init.(*ast.AssignStmt)
	if !ok || as.Tok != token.DEFINE || len(as.Lhs) != 1 || len(as.Rhs) != 1 {
		return 0
	}
	iv, ok := as.Lhs[0].(*ast.Ident)
	if !ok {
		return 0
	}
	lit := func(e ast.Expr) (int, bool) {
		bl, ok := e.(*ast.BasicLit)
		if !ok || bl.Kind != token.INT {
			return 0, false
		}
		n, err := strconv.Atoi(bl.Value)
		return n, err == nil
	}
	a, ok := lit(as.Rhs[0])
	if !ok {
		return 0
	}
	be, ok := fs.Cond.(*ast.BinaryExpr)
	if !ok {
		return 0
	}
	if x, ok := be.X.(*ast.Ident); !ok || x.Name != iv.Name {
		return 0
	}
	b, ok := lit(be.Y)
	if !ok {
		return 0
	}
	n := 0
	switch be.Op {
	case token.LSS, token.NEQ:
		n = b - a
	case token.LEQ:
		n = b - a + 1
	default:
		return 0
	}
	switch ps := fs.Post.(type) {
	case *ast.IncDecStmt:
		if x, ok := ps.X.(*ast.Ident); !ok || x.Name != iv.Name || ps.Tok != token.INC {
			return 0
		}
	case *ast.AssignStmt:
		if len(ps.Lhs) != 1 || len(ps.Rhs) != 1 || ps.Tok != token.ADD_ASSIGN {
			return 0
		}
		if x, ok := ps.Lhs[0].(*ast.Ident); !ok || x.Name != iv.Name {
			return 0
		}
		if one, ok := lit(ps.Rhs[0]); !ok || one != 1 {
			return 0
		}
	default:
		return 0
	}
	if n < 1 || n > 16 {
		return 0
	}
	bad := false
	ast.Inspect(fs.Body, func(x ast.Node) bool {
		switch y := x.(type) {
		case *ast.AssignStmt:
			for _, l := range y.Lhs {
				if id, ok := l.(*ast.Ident); ok && id.Name == iv.Name {
					bad = true
				}
			}
		case *ast.IncDecStmt:
			if id, ok := y.X.(*ast.Ident); ok && id.Name == iv.Name {
				bad = true
			}
		case *ast.UnaryExpr:
			if id, ok := y.X.(*ast.Ident); ok && id.Name == iv.Name && y.Op == token.AND {
				bad = true
			}
		case *ast.ForStmt, *ast.RangeStmt, *ast.FuncLit, *ast.BranchStmt, *ast.LabeledStmt:
			bad = true // nested loops, closures, break / continue / goto: not unrolled
		}
		return !bad
	})
	if bad {
		return 0
	}
	return n
}

// countedLoops: the loops of a function that are unrolled (constTripCount > 0).
func countedLoops(n ast.Node) []ast.Stmt {
	var out []ast.Stmt
	for _, s := range allLoopsInSource(n) {
		if constTripCount(s) > 0 {
			out = append(out, s)
		}
	}
	return out
}

// loopsInSource: the loops that take a loop ordinal (all loops but the counted ones), in source order.
func loopsInSource(n ast.Node) []ast.Stmt {
	var out []ast.Stmt
	for _, s := range allLoopsInSource(n) {
		if constTripCount(s) == 0 {
			out = append(out, s)
		}
	}
	return out
}

func allLoopsInSource(n ast.Node) []ast.Stmt {
	var out []ast.Stmt
	if n == nil {
		return nil
	}
	var body *ast.BlockStmt
	switch f := n.(type) {
	case *ast.FuncDecl:
		body = f.Body
	case *ast.FuncLit:
		body = f.Body
	}
	if body == nil {
		return nil
	}
	ast.Inspect(body, func(x ast.Node) bool {
		switch s := x.(type) {
		case *ast.FuncLit:
			return false
		case *ast.ForStmt:
			out = append(out, s)
		case *ast.RangeStmt:
			out = append(out, s)
		}
		return true
	})
	return out
}

// contractParamNames: parameter names used by a no-body contract (interface method: the names of the
// interface method's parameters; function-parameter contract: arg0, arg1, ...).
func (e *Engine) contractParamNames(key string, fn *ssa.Function) []string {
	if fc := e.cs.Funcs[key]; fc != nil && len(fc.ParamNames) > 0 {
		return fc.ParamNames
	}
	parts := strings.Split(key, ".")
	if len(parts) == 3 {
		if tp, ok := e.tpkgs[parts[0]]; ok {
			if obj := tp.Types.Scope().Lookup(parts[1]); obj != nil {
				if it, ok := obj.Type().Underlying().(*types.Interface); ok {
					for i := 0; i < it.NumMethods(); i++ {
						if it.Method(i).Name() == parts[2] {
							sig := it.Method(i).Type().(*types.Signature)
							var names []string
							for k := 0; k < sig.Params().Len(); k++ {
								names = append(names, sig.Params().At(k).Name())
							}
							return names
						}
					}
				}
			}
		}
	}
	return nil
}
