package main

import (
	"bytes"
	"fmt"
	"go/ast"
	"go/constant"
	"go/printer"
	"go/token"
	"go/types"
	"sort"
	"strconv"
	"strings"

	"golang.org/x/tools/go/ast/astutil"
	"golang.org/x/tools/go/ssa"
)

type edge struct {
	cond string // includes reach of source
	st   *State
}

type edgeFrom struct {
	cond string
	from *ssa.BasicBlock
}

// pathConds lists the ways of reaching b, one per path into the nearest join(s) above b (depth joins deep): for each
// its condition (the conditions together cover b's reach condition), the blocks on the path down from the last join
// considered, and that join's source block (everything that reaches it may lie on the path).
type pathInfo struct {
	cond   string
	blocks []*ssa.BasicBlock
	tail   *ssa.BasicBlock
}

func (f *Frame) pathConds(b *ssa.BasicBlock, depth int) []pathInfo {
	var chain []*ssa.BasicBlock
	for n := 0; n < 1000; n++ {
		chain = append(chain, b)
		es := f.inEdges[b]
		if depth <= 0 || f.loops[b] != nil || len(es) == 0 {
			return []pathInfo{{cond: "", blocks: chain, tail: b}}
		}
		if len(es) == 1 {
			b = es[0].from
			continue
		}
		var out []pathInfo
		for _, e := range es {
			for _, sub := range f.pathConds(e.from, depth-1) {
				pi := pathInfo{cond: e.cond, tail: sub.tail}
				if sub.cond != "" {
					pi.cond = "(and " + e.cond + " " + sub.cond + ")"
				}
				pi.blocks = append(append([]*ssa.BasicBlock{}, chain...), sub.blocks...)
				out = append(out, pi)
			}
		}
		return out
	}
	return []pathInfo{{cond: "", blocks: chain, tail: b}}
}

type loopInfoUnroll struct {
	unroll    int // >0: counted loop executed turn by turn (number of turns)
	unrolling bool
	backs     []edge
}

type loopInfo struct {
	loopInfoUnroll
	header   *ssa.BasicBlock
	blocks   map[*ssa.BasicBlock]bool
	ordinal  int
	lc       *LoopContract
	modCells map[*ssa.Alloc]bool
	modIters map[ssa.Value]bool
	modKeys  map[string]bool
	allocs   bool
	// recorded at header
	entryNext string
	entryHeap map[string]string
	variant0  []string
	hdrState  *State
	preState  *State
	objs      map[string][]string
}

type retInfo struct {
	blk   *ssa.BasicBlock
	pos   token.Pos
	reach string
	vals  []Val
	st    *State
}

type callRec struct {
	blk  *ssa.BasicBlock
	res  []Val
	args []Val
}

type Frame struct {
	calls map[string][]callRec // contract calls made so far, by callee name (spec: lastresult / lastarg)
	c      *Ctx
	fn     *ssa.Function
	id     int
	regs   map[ssa.Value]Val
	params map[string]Val // entry values by name
	reach  map[*ssa.BasicBlock]string
	out    map[*ssa.BasicBlock][]edge
	inEdges map[*ssa.BasicBlock][]edgeFrom
	wob     []*ssa.Alloc
	wobDone bool
	// inlined frames of un-contracted callees that contain loops: the caller, the caller's block at the call, and
	// the number of loop ordinals taken before this frame's first loop (the loop sections of the top function's
	// contract are bound to the loops of the flattened body in source order)
	up      *Frame
	upBlk   *ssa.BasicBlock
	ordBase int
	attrib  *ssa.BasicBlock
	round   int // >0 while a turn of an unrolled loop is executed (names of reach constants)
	loops  map[*ssa.BasicBlock]*loopInfo
	rets   []retInfo
	depth  int
	prefix string
	entry  *State
	fc     *FuncContract
	top    bool
	locals map[string][]*ssa.Alloc
	exprN  map[string]int
	cur    *ssa.BasicBlock
	fnObjs map[string][]string
	hasFrame bool
}

func (c *Ctx) newFrame(fn *ssa.Function, depth int, prefix string) *Frame {
	c.nframes++
	return &Frame{c: c, fn: fn, id: c.nframes, regs: map[ssa.Value]Val{}, params: map[string]Val{},
		reach: map[*ssa.BasicBlock]string{}, out: map[*ssa.BasicBlock][]edge{}, loops: map[*ssa.BasicBlock]*loopInfo{},
		depth: depth, prefix: prefix, locals: map[string][]*ssa.Alloc{}, exprN: map[string]int{}}
}

// ---------- loops ----------

func (f *Frame) topFrame() *Frame {
	t := f
	for t.up != nil {
		t = t.up
	}
	return t
}

// loopCount: loops of g plus those of the un-contracted callees with loops that would be inlined into it.
func (c *Ctx) loopCount(g *ssa.Function, seen map[*ssa.Function]bool) int {
	if seen[g] {
		return 0
	}
	seen[g] = true
	defer delete(seen, g)
	n := len(loopsInSource(g.Syntax()))
	for _, b := range g.Blocks {
		for _, ins := range b.Instrs {
			if call, ok := ins.(*ssa.Call); ok {
				if h := c.loopInlinee(call); h != nil {
					n += c.loopCount(h, seen)
				}
			}
		}
	}
	return n
}

// loopInlinee: the callee of a call that is a repository function without a contract and with a loop (it is inlined
// together with its loops when the function under verification has a contract), else nil.
func (c *Ctx) loopInlinee(call *ssa.Call) *ssa.Function {
	g, ok := call.Common().Value.(*ssa.Function)
	if !ok || call.Common().IsInvoke() {
		return nil
	}
	key, isRepo := c.eng.keyOf[g]
	if !isRepo || g == c.fn {
		return nil
	}
	if fc := c.eng.cs.Funcs[key]; fc != nil && !fc.Inline {
		return nil
	}
	if len(g.Blocks) == 0 || !hasLoop(g) {
		return nil
	}
	return g
}

func hasLoop(g *ssa.Function) bool {
	for _, b := range g.Blocks {
		for _, s := range b.Succs {
			if s.Dominates(b) {
				return true
			}
		}
	}
	return false
}

// inlinedLoopsBefore: number of loops contributed by loop-carrying inlinees called, in this function, before pos.
func (f *Frame) inlinedLoopsBefore(pos token.Pos) int {
	n := 0
	for _, b := range f.fn.Blocks {
		for _, ins := range b.Instrs {
			if call, ok := ins.(*ssa.Call); ok && call.Pos() != token.NoPos && call.Pos() < pos {
				if h := f.c.loopInlinee(call); h != nil {
					n += f.c.loopCount(h, map[*ssa.Function]bool{f.fn: true})
				}
			}
		}
	}
	return n
}

// ordBaseFor: loop ordinals taken before the first loop of the callee inlined at call.
func (f *Frame) ordBaseFor(call *ssa.Call) int {
	n := f.ordBase + f.inlinedLoopsBefore(call.Pos())
	for _, l := range loopsInSource(f.fn.Syntax()) {
		if l.Pos() < call.Pos() {
			n++
		}
	}
	return n
}

func (f *Frame) findLoops() {
	fn := f.fn
	for _, b := range fn.Blocks {
		for _, s := range b.Succs {
			if s.Dominates(b) {
				// back edge b -> s
				li := f.loops[s]
				if li == nil {
					li = &loopInfo{header: s, blocks: map[*ssa.BasicBlock]bool{s: true}, modCells: map[*ssa.Alloc]bool{}, modIters: map[ssa.Value]bool{}, modKeys: map[string]bool{}}
					f.loops[s] = li
				}
				// natural loop: all blocks reaching b without passing s
				stack := []*ssa.BasicBlock{b}
				for len(stack) > 0 {
					x := stack[len(stack)-1]
					stack = stack[:len(stack)-1]
					if li.blocks[x] {
						continue
					}
					li.blocks[x] = true
					for _, p := range x.Preds {
						stack = append(stack, p)
					}
				}
			}
		}
	}
	if len(f.loops) == 0 {
		return
	}
	// ordinals from source order
	src := loopsInSource(fn.Syntax())
	for _, li := range f.loops {
		var lo, hi token.Pos
		for b := range li.blocks {
			for _, ins := range b.Instrs {
				if _, ok := ins.(*ssa.DebugRef); ok {
					continue
				}
				p := ins.Pos()
				if p == token.NoPos {
					continue
				}
				if lo == token.NoPos || p < lo {
					lo = p
				}
				if p > hi {
					hi = p
				}
			}
		}
		best := -1
		for i, s := range src {
			if lo != token.NoPos && s.Pos() <= lo && hi <= s.End() {
				if best < 0 || (src[best].End()-src[best].Pos()) > (s.End()-s.Pos()) {
					best = i
				}
			}
		}
		li.ordinal = best + 1
		if best < 0 {
			for _, cs := range countedLoops(fn.Syntax()) {
				if lo != token.NoPos && cs.Pos() <= lo && hi <= cs.End() && f.unrollable(li) {
					li.unroll = constTripCount(cs)
				}
			}
		}
		lfc := f.fc
		if best >= 0 {
			// loops of un-contracted callees that are inlined at call sites written before this loop come first
			li.ordinal = f.ordBase + best + 1 + f.inlinedLoopsBefore(src[best].Pos())
		}
		if f.up != nil {
			lfc = f.topFrame().fc
		}
		if lfc != nil && best >= 0 {
			li.lc = lfc.Loops[li.ordinal]
			if f.up != nil {
				if f.c.inlinedLoopOrdinals == nil {
					f.c.inlinedLoopOrdinals = map[int]bool{}
				}
				f.c.inlinedLoopOrdinals[li.ordinal] = true
			}
		}
		if lfc != nil && len(lfc.LoopInvs) > 0 {
			// default invariants from templates apply to every loop
			nlc := &LoopContract{Ordinal: li.ordinal}
			if li.lc != nil {
				*nlc = *li.lc
			}
			nlc.Invariants = append(append([]*Clause{}, lfc.LoopInvs...), nlc.Invariants...)
			li.lc = nlc
		}
	}
	// modified sets
	e := f.c.eng
	for _, li := range f.loops {
		for b := range li.blocks {
			for _, ins := range b.Instrs {
				switch i := ins.(type) {
				case *ssa.Store:
					if a := rootAlloc(i.Addr); a != nil && !a.Heap {
						li.modCells[a] = true
					}
					for _, k := range e.rootKeys(i.Addr, fn) {
						li.modKeys[k] = true
					}
				case *ssa.MapUpdate:
					if m, ok := i.Map.Type().Underlying().(*types.Map); ok {
						a, b2, c := e.mapKeys(m)
						li.modKeys[a], li.modKeys[b2], li.modKeys[c] = true, true, true
					}
				case *ssa.Next:
					li.modIters[i.Iter] = true
				case *ssa.Alloc:
					if i.Heap {
						li.allocs = true
					}
				case *ssa.MakeMap, *ssa.MakeInterface, *ssa.MakeClosure:
					li.allocs = true
				case ssa.CallInstruction:
					li.allocs = true
					for _, k := range f.calleeModKeys(i.Common()) {
						li.modKeys[k] = true
					}
				}
			}
		}
	}
}

func rootAlloc(v ssa.Value) *ssa.Alloc {
	switch a := v.(type) {
	case *ssa.Alloc:
		return a
	case *ssa.FieldAddr:
		return rootAlloc(a.X)
	case *ssa.IndexAddr:
		if _, ok := a.X.Type().Underlying().(*types.Pointer); ok {
			return rootAlloc(a.X)
		}
		// slice element: written back into the slice's origin
		if u, ok := a.X.(*ssa.UnOp); ok && u.Op == token.MUL {
			return rootAlloc(u.X)
		}
	}
	return nil
}

// calleeModKeys: heap keys a call may modify (syntactic).
func (f *Frame) calleeModKeys(com *ssa.CallCommon) []string {
	e := f.c.eng
	set := map[string]bool{}
	addFn := func(g *ssa.Function) {
		for k := range e.modsets[g] {
			set[k] = true
		}
	}
	if com.IsInvoke() {
		if it, ok := com.Value.Type().Underlying().(*types.Interface); ok {
			for _, g := range e.implementations(it, com.Method.Name()) {
				addFn(g)
			}
		}
	} else if bi, ok := com.Value.(*ssa.Builtin); ok {
		if bi.Name() == "delete" {
			if m, ok := com.Args[0].Type().Underlying().(*types.Map); ok {
				a, b2, c := e.mapKeys(m)
				set[a], set[b2], set[c] = true, true, true
			}
		}
	} else if sc := com.StaticCallee(); sc != nil {
		if _, ok := e.keyOf[sc]; ok {
			addFn(sc)
		} else if ks, ok := libMods[sc.String()]; ok {
			for _, k := range ks {
				set[k] = true
			}
		}
	} else {
		// a call through a function-typed parameter bound to a contract: the contract's modifies clause decides
		if ks, ok := f.fnParamModKeys(com.Value); ok {
			for _, k := range ks {
				set[k] = true
			}
			var out []string
			for k := range set {
				out = append(out, k)
			}
			sort.Strings(out)
			return out
		}
		switch v := com.Value.(type) {
		case *ssa.MakeClosure:
			if g, ok := v.Fn.(*ssa.Function); ok {
				addFn(g)
			}
		default:
			sig, _ := com.Value.Type().Underlying().(*types.Signature)
			for _, g := range e.allFns {
				if sig != nil && g.Signature.Recv() == nil && types.Identical(g.Signature, sig) {
					addFn(g)
				}
			}
		}
	}
	var out []string
	for k := range set {
		out = append(out, k)
	}
	sort.Strings(out)
	return out
}

// ---------- execution ----------

func (f *Frame) rname(b *ssa.BasicBlock) string {
	if f.round > 0 {
		return fmt.Sprintf("r!%d!%d!u%d", f.id, b.Index, f.round)
	}
	return fmt.Sprintf("r!%d!%d", f.id, b.Index)
}

// run executes the function body from the given state. Returns merged results and state.
func (f *Frame) run(st *State, reach string, args []Val, bindings []Val) {
	c := f.c
	fn := f.fn
	f.entry = st.clone()
	for i, p := range fn.Params {
		f.regs[p] = args[i]
		f.params[p.Name()] = args[i]
	}
	for old, i := range c.eng.paramAliases(fn) {
		if i < len(args) {
			f.params[old] = args[i]
		}
	}
	for i, fv := range fn.FreeVars {
		if i < len(bindings) {
			f.regs[fv] = bindings[i]
		}
	}
	for _, b := range fn.Blocks {
		for _, ins := range b.Instrs {
			if a, ok := ins.(*ssa.Alloc); ok && a.Comment != "" {
				f.locals[a.Comment] = append(f.locals[a.Comment], a)
			}
		}
	}
	for old, cur := range c.eng.localAliases(fn) {
		if _, ok := f.locals[old]; !ok {
			f.locals[old] = f.locals[cur]
		}
	}
	f.findLoops()
	order := f.rpo()
	done := map[*ssa.BasicBlock]bool{}
	for _, b := range order {
		if done[b] {
			continue
		}
		if li := f.loops[b]; li != nil && li.unroll > 0 {
			f.unrollLoop(li, order, done, st, reach)
			continue
		}
		f.stepBlock(b, st, reach, nil)
	}
}

// stepBlock executes one block: merges the states of its incoming forward edges (hdr, when given, replaces them: the
// state in which a turn of an unrolled loop starts), enters a loop cut at its header, runs the instructions.
func (f *Frame) stepBlock(b *ssa.BasicBlock, st *State, reach string, hdr []edge) {
	c := f.c
	fn := f.fn
	{
		f.cur = b
		if f.top {
			c.curBlk = b
			if f.attrib != nil {
				// inside an unrolled loop: what a turn establishes is known after the loop as well, so its facts
				// are attributed to the header (from which the exit is reached)
				c.curBlk = f.attrib
			}
		}
		var cur *State
		var r string
		if b == fn.Blocks[0] {
			cur = st
			r = reach
		} else {
			var ins []edge
			if hdr != nil {
				ins = hdr
			} else {
				for _, p := range b.Preds {
					for si, s := range p.Succs {
						if s != b {
							continue
						}
						if b.Dominates(p) && f.loops[b] != nil {
							continue // back edge, handled when p finishes
						}
						if es, ok := f.out[p]; ok && si < len(es) && es[si].st != nil {
							ins = append(ins, es[si])
						}
					}
				}
			}
			if len(ins) == 0 {
				return // unreachable
			}
			r = c.declare(f.rname(b), "Bool")
			var conds []string
			for _, e := range ins {
				conds = append(conds, e.cond)
			}
			if len(conds) == 1 {
				c.fact("(= " + r + " " + conds[0] + ")")
			} else {
				c.fact("(= " + r + " (or " + strings.Join(conds, " ") + "))")
			}
			if f.inEdges == nil {
				f.inEdges = map[*ssa.BasicBlock][]edgeFrom{}
			}
			f.inEdges[b] = nil
			if hdr == nil {
				for _, p := range b.Preds {
					for si, s := range p.Succs {
						if s != b || (b.Dominates(p) && f.loops[b] != nil) {
							continue
						}
						if es, ok := f.out[p]; ok && si < len(es) && es[si].st != nil {
							f.inEdges[b] = append(f.inEdges[b], edgeFrom{cond: es[si].cond, from: p})
						}
					}
				}
			}
			cur = f.merge(ins, b)
			if li := f.loops[b]; li != nil && li.unroll == 0 {
				cur, r = f.enterLoop(li, cur, r)
			}
		}
		f.reach[b] = r
		f.execBlock(b, cur, r)
	}
}

// unrollLoop executes a counted loop (constTripCount) turn by turn instead of cutting it at its header: every turn
// starts in the merged state of the back edges of the turn before; the edges that leave the loop are collected over
// the turns and merged; after the last turn a further back edge must be unreachable (obligation unroll-bound).
func (f *Frame) unrollLoop(li *loopInfo, order []*ssa.BasicBlock, done map[*ssa.BasicBlock]bool, st *State, reach string) {
	c := f.c
	var blocks []*ssa.BasicBlock
	for _, b := range order {
		if li.blocks[b] {
			blocks = append(blocks, b)
			done[b] = true
		}
	}
	type exitKey struct {
		b  *ssa.BasicBlock
		si int
	}
	exits := map[exitKey][]edge{}
	var keys []exitKey
	var hdr []edge
	savedRound := f.round
	savedAttrib := f.attrib
	if f.attrib == nil {
		f.attrib = li.header
	}
	defer func() { f.attrib = savedAttrib }()
	for turn := 0; turn <= li.unroll; turn++ {
		c.nunroll++
		f.round = c.nunroll
		li.unrolling = true
		li.backs = nil
		for _, b := range blocks {
			if b == li.header && turn > 0 {
				f.stepBlock(b, st, reach, hdr)
			} else {
				f.stepBlock(b, st, reach, nil)
			}
		}
		li.unrolling = false
		for _, b := range blocks {
			for si, succ := range b.Succs {
				if li.blocks[succ] {
					continue
				}
				if es := f.out[b]; si < len(es) && es[si].st != nil {
					k := exitKey{b, si}
					if _, ok := exits[k]; !ok {
						keys = append(keys, k)
					}
					exits[k] = append(exits[k], es[si])
					f.out[b][si] = edge{}
				}
			}
		}
		if len(li.backs) == 0 {
			break
		}
		if turn == li.unroll {
			for _, be := range li.backs {
				f.oblige(fmt.Sprintf("unroll-bound/counted-loop@%d", li.unroll), nil, be.cond, "false")
			}
			break
		}
		hdr = li.backs
	}
	f.round = savedRound
	for _, k := range keys {
		es := exits[k]
		for len(f.out[k.b]) <= k.si {
			f.out[k.b] = append(f.out[k.b], edge{})
		}
		if len(es) == 1 {
			f.out[k.b][k.si] = es[0]
			continue
		}
		var conds []string
		for _, e := range es {
			conds = append(conds, e.cond)
		}
		nr := c.fresh("ux", "Bool")
		c.fact("(= " + nr + " (or " + strings.Join(conds, " ") + "))")
		f.out[k.b][k.si] = edge{cond: nr, st: f.merge(es, nil)}
	}
}

func (f *Frame) rpo() []*ssa.BasicBlock {
	seen := map[*ssa.BasicBlock]bool{}
	var post []*ssa.BasicBlock
	var dfs func(b *ssa.BasicBlock)
	dfs = func(b *ssa.BasicBlock) {
		seen[b] = true
		for _, s := range b.Succs {
			if !seen[s] && !(s.Dominates(b)) {
				dfs(s)
			}
		}
		post = append(post, b)
	}
	dfs(f.fn.Blocks[0])
	for i, j := 0, len(post)-1; i < j; i, j = i+1, j-1 {
		post[i], post[j] = post[j], post[i]
	}
	// ensure a topological order w.r.t. forward edges (DFS reverse postorder ignoring back edges is one)
	return post
}

// merge states of incoming edges
func (f *Frame) merge(ins []edge, b *ssa.BasicBlock) *State {
	c := f.c
	if len(ins) == 1 {
		return ins[0].st.clone()
	}
	res := ins[0].st.clone()
	// cells
	cellSet := map[*ssa.Alloc]bool{}
	for _, e := range ins {
		for k := range e.st.cells {
			cellSet[k] = true
		}
	}
	var cellKeys []*ssa.Alloc
	for k := range cellSet {
		cellKeys = append(cellKeys, k)
	}
	// deterministic order: the names of the merge constants (and so the text of every query) must not depend on
	// map iteration order
	sort.Slice(cellKeys, func(i, j int) bool {
		a, b := cellKeys[i], cellKeys[j]
		if a.Parent() != b.Parent() {
			return a.Parent().String() < b.Parent().String()
		}
		if a.Pos() != b.Pos() {
			return a.Pos() < b.Pos()
		}
		if a.Comment != b.Comment {
			return a.Comment < b.Comment
		}
		return a.Name() < b.Name()
	})
	for _, k := range cellKeys {
		first, ok0 := ins[0].st.cells[k]
		same := ok0
		all := true
		for _, e := range ins {
			v, ok := e.st.cells[k]
			if !ok {
				all = false
				break
			}
			if v.T != first.T || v.IsArr || first.IsArr {
				same = false
			}
		}
		if !all {
			delete(res.cells, k) // not defined on all paths: dead at the join
			continue
		}
		if same {
			continue
		}
		if first.IsArr || first.T == "" {
			continue
		}
		m := c.fresh("m."+k.Comment, first.S)
		for _, e := range ins {
			c.fact("(=> " + e.cond + " (= " + m + " " + e.st.cells[k].T + "))")
		}
		nv := first
		nv.T = m
		nv.Fn = nil
		res.cells[k] = nv
	}
	// heap
	keySet := map[string]bool{}
	for _, e := range ins {
		for k := range e.st.heap {
			keySet[k] = true
		}
	}
	var keys []string
	for k := range keySet {
		keys = append(keys, k)
	}
	sort.Strings(keys)
	for _, k := range keys {
		first := c.heapTerm(ins[0].st, k)
		same := true
		for _, e := range ins[1:] {
			if c.heapTerm(e.st, k) != first {
				same = false
			}
		}
		if same {
			res.heap[k] = first
			continue
		}
		m := c.fresh("mh."+k, "(Array Int "+c.eng.heapSort[k]+")")
		for _, e := range ins {
			c.fact("(=> " + e.cond + " (= " + m + " " + c.heapTerm(e.st, k) + "))")
		}
		res.heap[k] = m
	}
	// ghosts
	gset := map[string]bool{}
	for _, e := range ins {
		for k := range e.st.ghosts {
			gset[k] = true
		}
	}
	var gkeys []string
	for k := range gset {
		gkeys = append(gkeys, k)
	}
	sort.Strings(gkeys)
	for _, k := range gkeys {
		first := c.ghostTerm(ins[0].st, k)
		same := true
		for _, e := range ins[1:] {
			if c.ghostTerm(e.st, k) != first {
				same = false
			}
		}
		if same {
			res.ghosts[k] = first
			continue
		}
		g := c.eng.cs.Ghosts[k]
		s, _ := c.eng.resolveType(g.Pkg, g.Type)
		m := c.fresh("mg."+k, s)
		for _, e := range ins {
			c.fact("(=> " + e.cond + " (= " + m + " " + c.ghostTerm(e.st, k) + "))")
		}
		res.ghosts[k] = m
	}
	// iterators
	var itKeys []ssa.Value
	for k := range ins[0].st.iters {
		itKeys = append(itKeys, k)
	}
	sort.Slice(itKeys, func(i, j int) bool {
		if itKeys[i].Pos() != itKeys[j].Pos() {
			return itKeys[i].Pos() < itKeys[j].Pos()
		}
		return itKeys[i].Name() < itKeys[j].Name()
	})
	for _, k := range itKeys {
		first := ins[0].st.iters[k]
		same := true
		for _, e := range ins[1:] {
			if v, ok := e.st.iters[k]; !ok || v.T != first.T {
				same = false
			}
		}
		if !same {
			m := c.fresh("mit", first.S)
			for _, e := range ins {
				if v, ok := e.st.iters[k]; ok {
					c.fact("(=> " + e.cond + " (= " + m + " " + v.T + "))")
				}
			}
			nv := first
			nv.T = m
			res.iters[k] = nv
		}
	}
	// nextRef
	first := c.nextRef(ins[0].st)
	same := true
	for _, e := range ins[1:] {
		if c.nextRef(e.st) != first {
			same = false
		}
	}
	if !same {
		m := c.fresh("mnr", "Int")
		for _, e := range ins {
			c.fact("(=> " + e.cond + " (= " + m + " " + c.nextRef(e.st) + "))")
		}
		res.nextRef = m
	} else {
		res.nextRef = first
	}
	return res
}

func (f *Frame) obName(kind string) string {
	name := f.c.key + "/" + f.prefix + kind
	f.c.names[name]++
	if n := f.c.names[name]; n > 1 {
		name = fmt.Sprintf("%s#%d", name, n)
	}
	return name
}

// oblige registers a proof obligation goal under reach.
func (f *Frame) oblige(kind string, cl *Clause, reach, goal string) *Obligation {
	c := f.c
	if goal == "true" {
		// trivially discharged; still count labelled clauses
		if cl == nil {
			return nil
		}
	}
	if cl == nil {
		key := reach + "|" + goal
		if c.seenGoal[key] {
			return nil
		}
		c.seenGoal[key] = true
	}
	ob := &Obligation{Name: f.obName(kind), Func: c.key, Kind: kind, NDecl: len(c.decls), NFact: len(c.facts), Reach: reach, Goal: goal, Ctx: c, Expect: "unsat", Blk: c.curBlk}
	ob.Extra = c.pend
	c.pend = nil
	if cl != nil {
		ob.Props = cl.Props
		ob.Needs = cl.Needs
		ob.Label = cl.Label
		ob.Clause = cl.Text
		ob.Where = cl.Where
	}
	c.obs = append(c.obs, ob)
	return ob
}

func (f *Frame) srcText(pos token.Pos, want func(ast.Node) bool) string {
	if pos == token.NoPos {
		return "?"
	}
	_, file := f.c.eng.fileOf(pos)
	if file == nil {
		return "?"
	}
	path, _ := astutil.PathEnclosingInterval(file, pos, pos)
	for _, n := range path {
		if want(n) {
			var buf bytes.Buffer
			printer.Fprint(&buf, f.c.eng.fset, n)
			s := strings.Join(strings.Fields(buf.String()), " ")
			if len(s) > 80 {
				s = s[:80]
			}
			return s
		}
	}
	return "?"
}

func (f *Frame) val(v ssa.Value) Val {
	c := f.c
	switch x := v.(type) {
	case *ssa.Const:
		return f.constVal(x)
	case *ssa.Function:
		return Val{T: c.fnToken(x), S: "Int", Fn: &FnRef{Fn: x}}
	case *ssa.Global:
		// address of a package-level variable
		s := c.eng.sortOf(x.Type().(*types.Pointer).Elem())
		k := c.eng.heapKeyRaw("G."+x.Pkg.Pkg.Name()+"."+x.Name(), s)
		return Val{A: &Addr{Kind: aBox, Base: "0", Key: k, Sort: s}}
	case *ssa.Builtin:
		return Val{}
	}
	if r, ok := f.regs[v]; ok {
		return r
	}
	c.errorf("use of unevaluated value %s (%T) in %s", v.Name(), v, f.fn.Name())
	return tv("0", "Int")
}

func (c *Ctx) fnToken(fn *ssa.Function) string {
	name := "fn." + strings.Map(func(r rune) rune {
		if (r >= 'a' && r <= 'z') || (r >= 'A' && r <= 'Z') || (r >= '0' && r <= '9') || r == '_' || r == '.' {
			return r
		}
		return '_'
	}, funcKeyAny(fn))
	c.declare(name, "Int")
	return name
}

func funcKeyAny(fn *ssa.Function) string {
	if fn.Pkg != nil || fn.Parent() != nil {
		return funcKey(fn)
	}
	return fn.String()
}

func (f *Frame) constVal(x *ssa.Const) Val {
	e := f.c.eng
	t := x.Type()
	if x.Value == nil {
		// zero value / nil
		s := e.sortOf(t)
		if s == "Tuple" {
			return Val{}
		}
		return Val{T: e.zero(s), S: s, GT: t}
	}
	switch x.Value.Kind() {
	case constant.Bool:
		if constant.BoolVal(x.Value) {
			return tv("true", "Bool")
		}
		return tv("false", "Bool")
	case constant.Int:
		s := x.Value.ExactString()
		if strings.HasPrefix(s, "-") {
			return tv("(- "+s[1:]+")", "Int")
		}
		return tv(s, "Int")
	case constant.String:
		return tv(e.lit(constant.StringVal(x.Value)), "Str")
	}
	f.c.errorf("unsupported constant %s", x)
	return tv("0", "Int")
}

func (f *Frame) execBlock(b *ssa.BasicBlock, st *State, r string) {
	c := f.c
	for _, ins := range b.Instrs {
		switch i := ins.(type) {
		case *ssa.DebugRef:
		case *ssa.Alloc:
			f.execAlloc(i, st, r)
		case *ssa.Store:
			a := f.val(i.Addr)
			v := f.val(i.Val)
			if a.A == nil {
				// pointer value: box or heap object
				a = f.derefAddr(a, i.Addr.Type(), st, r, i.Pos())
			}
			if a.A != nil {
				c.store(st, a.A, v)
			}
		case *ssa.UnOp:
			f.regs[i] = f.execUnOp(i, st, r)
		case *ssa.BinOp:
			f.regs[i] = f.execBinOp(i, st, r)
		case *ssa.FieldAddr:
			f.regs[i] = f.execFieldAddr(i, st, r)
		case *ssa.Field:
			x := f.val(i.X)
			dt := c.eng.dtypes[x.S]
			if dt == nil {
				c.errorf("Field on non-datatype %s", x.S)
				f.regs[i] = tv("0", "Int")
				break
			}
			fd := dt.Fields[i.Field]
			f.regs[i] = Val{T: "(" + fd.Acc + " " + x.T + ")", S: fd.Sort, GT: i.Type()}
		case *ssa.IndexAddr:
			f.regs[i] = f.execIndexAddr(i, st, r)
		case *ssa.Index:
			x := f.val(i.X)
			idx := f.val(i.Index)
			if x.S == "Str" {
				f.safe("index", i.Pos(), r, "(and (<= 0 "+idx.T+") (< "+idx.T+" (slen "+x.T+")))", isIndexExpr)
				f.regs[i] = tv("(sbyte "+x.T+" "+idx.T+")", "Int")
			} else if x.IsArr {
				n, _ := strconv.Atoi(idx.T)
				f.regs[i] = x.Arr[n]
			} else {
				f.regs[i] = tv("(select "+x.T+" "+idx.T+")", c.eng.sortOf(i.Type()))
			}
		case *ssa.Lookup:
			f.regs[i] = f.execLookup(i, st, r)
		case *ssa.Slice:
			f.regs[i] = f.execSlice(i, st, r)
		case *ssa.MakeSlice:
			es := c.eng.sortOf(i.Type().Underlying().(*types.Slice).Elem())
			ss := c.eng.sliceSort(es)
			ln := f.val(i.Len)
			f.safe("makeslice", i.Pos(), r, "(<= 0 "+ln.T+")", isCallExpr)
			f.regs[i] = Val{T: c.mkSlice(ss, c.eng.zero("(Array Int "+es+")"), "0", ln.T), S: ss, GT: i.Type()}
		case *ssa.MakeMap:
			m := i.Type().Underlying().(*types.Map)
			dom, val, ln := c.eng.mapKeys(m)
			ref := c.newObject(st, r, "map")
			st.heap[dom] = "(store " + c.heapTerm(st, dom) + " " + ref + " " + c.eng.zero(c.eng.heapSort[dom]) + ")"
			st.heap[val] = "(store " + c.heapTerm(st, val) + " " + ref + " " + c.eng.zero(c.eng.heapSort[val]) + ")"
			st.heap[ln] = "(store " + c.heapTerm(st, ln) + " " + ref + " 0)"
			f.regs[i] = Val{T: ref, S: "Int", GT: i.Type()}
		case *ssa.MapUpdate:
			f.execMapUpdate(i, st, r)
		case *ssa.MakeInterface:
			f.regs[i] = f.execMakeInterface(i, st, r)
		case *ssa.ChangeInterface:
			f.regs[i] = f.val(i.X)
		case *ssa.ChangeType:
			v := f.val(i.X)
			v.GT = i.Type()
			f.regs[i] = v
		case *ssa.Convert:
			f.regs[i] = f.execConvert(i, st, r)
		case *ssa.TypeAssert:
			f.regs[i] = f.execTypeAssert(i, st, r)
		case *ssa.Extract:
			t := f.val(i.Tuple)
			if i.Index < len(t.Tup) {
				f.regs[i] = t.Tup[i.Index]
			} else {
				c.errorf("extract from non-tuple in %s", f.fn.Name())
				f.regs[i] = tv("0", "Int")
			}
		case *ssa.Phi:
			f.regs[i] = f.execPhi(i, b)
		case *ssa.Range:
			x := f.val(i.X)
			if x.S == "Str" {
				st.iters[i] = Val{T: "0", S: "Int", GT: i.X.Type()}
			} else {
				// map: visited set
				m := i.X.Type().Underlying().(*types.Map)
				ks := c.eng.sortOf(m.Key())
				st.iters[i] = Val{T: c.eng.zero("(Array " + ks + " Bool)"), S: "(Array " + ks + " Bool)", GT: i.X.Type(), Tup: []Val{tv("0", "Int")}}
			}
			f.regs[i] = x
		case *ssa.Next:
			f.regs[i] = f.execNext(i, st, r)
		case *ssa.MakeClosure:
			fn := i.Fn.(*ssa.Function)
			var bs []Val
			for _, bv := range i.Bindings {
				bs = append(bs, f.val(bv))
			}
			ref := c.newObject(st, r, "closure")
			f.regs[i] = Val{T: ref, S: "Int", Fn: &FnRef{Fn: fn, Bindings: bs}, GT: i.Type()}
			f.closureDefines(i, fn, ref, st, r)
		case *ssa.Call:
			f.regs[i] = f.execCall(i, st, &r)
		case *ssa.RunDefers:
		case *ssa.Defer, *ssa.Go, *ssa.Send, *ssa.Select:
			c.errorf("unsupported instruction %T (outside subset)", ins)
		case *ssa.Jump:
			f.finishEdge(b, 0, r, st)
		case *ssa.If:
			cv := f.val(i.Cond)
			f.finishEdge(b, 0, "(and "+r+" "+cv.T+")", st)
			f.finishEdge(b, 1, "(and "+r+" (not "+cv.T+"))", st)
		case *ssa.Return:
			var vals []Val
			for _, rv := range i.Results {
				vals = append(vals, f.val(rv))
			}
			f.rets = append(f.rets, retInfo{reach: r, vals: vals, st: st, pos: i.Pos(), blk: b})
		case *ssa.Panic:
			// reachable panic is a violation of the no-panic property
			txt := f.srcText(i.Pos(), isCallExpr)
			f.oblige("safe:panic@"+txt, nil, r, "false")
		default:
			c.errorf("unsupported instruction %T in %s", ins, f.fn.Name())
		}
	}
}

func (f *Frame) finishEdge(b *ssa.BasicBlock, si int, cond string, st *State) {
	succ := b.Succs[si]
	for len(f.out[b]) <= si {
		f.out[b] = append(f.out[b], edge{})
	}
	if succ.Dominates(b) && f.loops[succ] != nil && f.loops[succ].unroll > 0 {
		if f.loops[succ].unrolling {
			f.loops[succ].backs = append(f.loops[succ].backs, edge{cond: cond, st: st.clone()})
		}
		return
	}
	if succ.Dominates(b) && f.loops[succ] != nil {
		// back edge. When the source is a pure join block, check the invariants on each incoming path
		// separately (smaller queries, and facts of sibling branches are filtered out).
		if f.top && isTrivialJoin(b) && len(b.Preds) > 1 {
			saved := f.c.curBlk
			for _, pe := range f.expandJoin(b) {
				f.c.curBlk = pe.blk
				f.closeLoop(f.loops[succ], pe.e.st, pe.e.cond)
			}
			f.c.curBlk = saved
			return
		}
		f.closeLoop(f.loops[succ], st, cond)
		return
	}
	f.out[b][si] = edge{cond: cond, st: st.clone()}
}

func isIndexExpr(n ast.Node) bool { _, ok := n.(*ast.IndexExpr); return ok }
func isSliceExpr(n ast.Node) bool { _, ok := n.(*ast.SliceExpr); return ok }
func isCallExpr(n ast.Node) bool  { _, ok := n.(*ast.CallExpr); return ok }
func isSelExpr(n ast.Node) bool {
	switch n.(type) {
	case *ast.SelectorExpr, *ast.StarExpr:
		return true
	}
	return false
}
func isAssertExpr(n ast.Node) bool { _, ok := n.(*ast.TypeAssertExpr); return ok }
func isAnyExpr(n ast.Node) bool    { _, ok := n.(ast.Expr); return ok }

func (f *Frame) safe(kind string, pos token.Pos, reach, goal string, want func(ast.Node) bool) {
	if kind == "nil" {
		// (not (= X 0)) where X is a freshly allocated object or the (non-nil) receiver: trivially true
		x := strings.TrimSuffix(strings.TrimPrefix(goal, "(not (= "), " 0))")
		if strings.HasPrefix(x, "ref.") && !strings.Contains(x, " ") {
			return
		}
		if f.c.nonNil[x] {
			return
		}
	}
	txt := f.srcText(pos, want)
	f.oblige("safe:"+kind+"@"+txt, nil, reach, goal)
}

func (f *Frame) execAlloc(i *ssa.Alloc, st *State, r string) {
	c := f.c
	et := i.Type().(*types.Pointer).Elem()
	if i.Heap {
		ref := c.newObject(st, r, i.Comment)
		if n, ok := et.(*types.Named); ok {
			if _, ok := n.Underlying().(*types.Struct); ok {
				c.zeroStruct(st, ref, n)
				c.assume(r, "(= (typeOf "+ref+") "+c.eng.tagOfType(i.Type())+")")
				f.regs[i] = Val{T: ref, S: "Int", GT: i.Type()}
				return
			}
		}
		if arr, ok := et.Underlying().(*types.Array); ok {
			// heap array (varargs): engine-level cell keyed by the alloc itself
			_ = arr
			st.cells[i] = Val{IsArr: true, Arr: make([]Val, arr.Len())}
			f.regs[i] = Val{A: &Addr{Kind: aLocal, Cell: i}}
			return
		}
		s := c.eng.sortOf(et)
		k := c.eng.boxKey(et)
		st.heap[k] = "(store " + c.heapTerm(st, k) + " " + ref + " " + c.eng.zero(s) + ")"
		f.regs[i] = Val{T: ref, S: "Int", GT: i.Type()}
		return
	}
	if arr, ok := et.Underlying().(*types.Array); ok {
		st.cells[i] = Val{IsArr: true, Arr: make([]Val, arr.Len())}
	} else if et.String() == "$ssa.deferStack" || strings.Contains(et.String(), "deferStack") {
		st.cells[i] = tv("0", "Int")
	} else {
		s := c.eng.sortOf(et)
		st.cells[i] = Val{T: c.eng.zero(s), S: s, GT: et}
	}
	f.regs[i] = Val{A: &Addr{Kind: aLocal, Cell: i}}
}

// derefAddr turns a pointer value (ref term) into an address for load/store of the whole pointee.
func (f *Frame) derefAddr(p Val, pt types.Type, st *State, r string, pos token.Pos) Val {
	c := f.c
	ptr, ok := pt.Underlying().(*types.Pointer)
	if !ok {
		c.errorf("deref of non-pointer %s", pt)
		return Val{}
	}
	f.safe("nil", pos, r, "(not (= "+p.T+" 0))", isSelExpr)
	if n, ok := ptr.Elem().(*types.Named); ok {
		if _, ok := n.Underlying().(*types.Struct); ok {
			c.eng.sortOf(n)
			return Val{A: &Addr{Kind: aHeapObj, Base: p.T, Named: n}}
		}
	}
	s := c.eng.sortOf(ptr.Elem())
	return Val{A: &Addr{Kind: aBox, Base: p.T, Key: c.eng.boxKey(ptr.Elem()), Sort: s}}
}

func (f *Frame) execUnOp(i *ssa.UnOp, st *State, r string) Val {
	c := f.c
	x := f.val(i.X)
	switch i.Op {
	case token.MUL:
		a := x
		if a.A == nil {
			a = f.derefAddr(x, i.X.Type(), st, r, i.Pos())
			if a.A == nil {
				return tv("0", "Int")
			}
		}
		v := c.load(st, a.A)
		if v.GT == nil {
			v.GT = i.Type()
		}
		if v.T != "" {
			c.assumeTyped(st, r, v, i.Type())
		}
		return v
	case token.NOT:
		return tv("(not "+x.T+")", "Bool")
	case token.SUB:
		return tv("(- "+x.T+")", "Int")
	}
	c.errorf("unsupported unary op %s", i.Op)
	return tv("0", "Int")
}

func (f *Frame) execBinOp(i *ssa.BinOp, st *State, r string) Val {
	c := f.c
	x, y := f.val(i.X), f.val(i.Y)
	bin := func(op string) Val { return tv("("+op+" "+x.T+" "+y.T+")", "Int") }
	cmp := func(op string) Val { return tv("("+op+" "+x.T+" "+y.T+")", "Bool") }
	switch i.Op {
	case token.ADD:
		if x.S == "Str" {
			return tv(rightCat(x.T, y.T), "Str")
		}
		return bin("+")
	case token.SUB:
		return bin("-")
	case token.MUL:
		return bin("*")
	case token.QUO:
		f.safe("div", i.Pos(), r, "(not (= "+y.T+" 0))", isAnyExpr)
		return tv("(godiv "+x.T+" "+y.T+")", "Int")
	case token.REM:
		f.safe("div", i.Pos(), r, "(not (= "+y.T+" 0))", isAnyExpr)
		return tv("(gorem "+x.T+" "+y.T+")", "Int")
	case token.EQL:
		return cmp("=")
	case token.NEQ:
		return tv("(not (= "+x.T+" "+y.T+"))", "Bool")
	case token.LSS:
		if x.S == "Str" {
			return tv("(strlt "+x.T+" "+y.T+")", "Bool")
		}
		return cmp("<")
	case token.LEQ:
		return cmp("<=")
	case token.GTR:
		return cmp(">")
	case token.GEQ:
		return cmp(">=")
	}
	c.errorf("unsupported binary op %s", i.Op)
	return tv("0", "Int")
}

func (f *Frame) execFieldAddr(i *ssa.FieldAddr, st *State, r string) Val {
	c := f.c
	x := f.val(i.X)
	pt := i.X.Type().Underlying().(*types.Pointer)
	stType := pt.Elem().Underlying().(*types.Struct)
	sortName := c.eng.sortOf(pt.Elem())
	dt := c.eng.dtypes[sortName]
	if x.A != nil {
		na := *x.A
		if na.Kind == aHeapObj {
			fd := stType.Field(i.Field)
			return Val{A: &Addr{Kind: aHeapField, Base: na.Base, Key: c.eng.heapKeyField(na.Named, fd.Name(), dt.Fields[i.Field].Sort), Sort: dt.Fields[i.Field].Sort}}
		}
		na.Path = append(append([]pathStep(nil), na.Path...), pathStep{dt, i.Field})
		return Val{A: &na}
	}
	// pointer value
	f.safe("nil", i.Pos(), r, "(not (= "+x.T+" 0))", isSelExpr)
	n, ok := pt.Elem().(*types.Named)
	if !ok {
		c.errorf("field address on pointer to unnamed struct")
		return Val{A: &Addr{Kind: aBox, Base: x.T, Key: c.eng.boxKey(types.Typ[types.Int]), Sort: "Int"}}
	}
	fd := stType.Field(i.Field)
	return Val{A: &Addr{Kind: aHeapField, Base: x.T, Key: c.eng.heapKeyField(n, fd.Name(), dt.Fields[i.Field].Sort), Sort: dt.Fields[i.Field].Sort}}
}

func (f *Frame) execIndexAddr(i *ssa.IndexAddr, st *State, r string) Val {
	c := f.c
	x := f.val(i.X)
	idx := f.val(i.Index)
	if _, ok := i.X.Type().Underlying().(*types.Pointer); ok {
		// pointer to array
		if x.A != nil && x.A.Kind == aLocal {
			n, err := strconv.Atoi(idx.T)
			if err != nil {
				c.errorf("non-constant index into local array")
				n = 0
			}
			return Val{A: &Addr{Kind: aArrCell, Cell: x.A.Cell, ArrI: n}}
		}
		c.errorf("unsupported pointer-to-array index")
		return Val{}
	}
	f.safe("index", i.Pos(), r, "(and (<= 0 "+idx.T+") (< "+idx.T+" "+c.slLen(x)+"))", isIndexExpr)
	xx := x
	return Val{A: &Addr{Kind: aSliceElem, Slice: &xx, Idx: idx.T}}
}

func (f *Frame) execLookup(i *ssa.Lookup, st *State, r string) Val {
	c := f.c
	x := f.val(i.X)
	k := f.val(i.Index)
	if x.S == "Str" {
		f.safe("index", i.Pos(), r, "(and (<= 0 "+k.T+") (< "+k.T+" (slen "+x.T+")))", isIndexExpr)
		return tv("(sbyte "+x.T+" "+k.T+")", "Int")
	}
	if u, ok := i.X.(*ssa.UnOp); ok {
		if g, ok := u.X.(*ssa.Global); ok {
			if v, ok := f.constMapLookup(i, g, k); ok {
				return v
			}
		}
	}
	m := i.X.Type().Underlying().(*types.Map)
	dom, val, _ := c.eng.mapKeys(m)
	vs := c.eng.sortOf(m.Elem())
	in := "(select (select " + c.heapTerm(st, dom) + " " + x.T + ") " + k.T + ")"
	raw := "(select (select " + c.heapTerm(st, val) + " " + x.T + ") " + k.T + ")"
	// nil map lookups are fine in Go: domain of ref 0 is empty by the global axiom on Mdom
	v := Val{T: "(ite " + in + " " + raw + " " + c.eng.zero(vs) + ")", S: vs, GT: m.Elem()}
	v.T = c.name(v.T, vs, "lk")
	c.assumeTyped(st, r, v, m.Elem())
	c.assume(r, "(=> (= "+x.T+" 0) (not "+in+"))")
	if i.CommaOk {
		return Val{Tup: []Val{v, tv(in, "Bool")}}
	}
	return v
}

func (f *Frame) execMapUpdate(i *ssa.MapUpdate, st *State, r string) {
	c := f.c
	m := f.val(i.Map)
	k := f.val(i.Key)
	v := f.val(i.Value)
	mt := i.Map.Type().Underlying().(*types.Map)
	dom, val, ln := c.eng.mapKeys(mt)
	f.safe("nilmap", i.Pos(), r, "(not (= "+m.T+" 0))", isAnyExpr)
	d := "(select " + c.heapTerm(st, dom) + " " + m.T + ")"
	vv := "(select " + c.heapTerm(st, val) + " " + m.T + ")"
	l := "(select " + c.heapTerm(st, ln) + " " + m.T + ")"
	st.heap[ln] = c.name("(store "+c.heapTerm(st, ln)+" "+m.T+" (ite (select "+d+" "+k.T+") "+l+" (+ "+l+" 1)))", "(Array Int Int)", "h")
	st.heap[dom] = c.name("(store "+c.heapTerm(st, dom)+" "+m.T+" (store "+d+" "+k.T+" true))", "(Array Int "+c.eng.heapSort[dom]+")", "h")
	vt := v.T
	if vt == "" {
		vt = c.eng.zero(c.eng.sortOf(mt.Elem()))
	}
	st.heap[val] = c.name("(store "+c.heapTerm(st, val)+" "+m.T+" (store "+vv+" "+k.T+" "+vt+"))", "(Array Int "+c.eng.heapSort[val]+")", "h")
}

func (f *Frame) execSlice(i *ssa.Slice, st *State, r string) Val {
	c := f.c
	x := f.val(i.X)
	var lo, hi string
	if i.Low != nil {
		lo = f.val(i.Low).T
	} else {
		lo = "0"
	}
	if _, ok := i.X.Type().Underlying().(*types.Pointer); ok {
		// slice of array: varargs temporaries stay engine-level; make([]T, const) and slice literals become real slices
		if x.A != nil {
			v := c.load(st, x.A)
			if x.A.Cell != nil && x.A.Cell.Comment != "varargs" && v.IsArr {
				es := c.eng.sortOf(i.Type().Underlying().(*types.Slice).Elem())
				ss := c.eng.sliceSort(es)
				arr := c.eng.zero("(Array Int " + es + ")")
				for k, el := range v.Arr {
					if el.T != "" {
						arr = fmt.Sprintf("(store %s %d %s)", arr, k, el.T)
					}
				}
				ln := fmt.Sprint(len(v.Arr))
				if i.High != nil {
					ln = f.val(i.High).T
				}
				if lo != "0" {
					c.errorf("slice literal with non-zero low bound")
				}
				return Val{T: c.mkSlice(ss, arr, "0", ln), S: ss, GT: i.Type()}
			}
			return v
		}
		c.errorf("unsupported slice of pointer-to-array")
		return Val{}
	}
	if x.S == "Str" {
		if i.High != nil {
			hi = f.val(i.High).T
		} else {
			hi = "(slen " + x.T + ")"
		}
		f.safe("slice", i.Pos(), r, "(and (<= 0 "+lo+") (<= "+lo+" "+hi+") (<= "+hi+" (slen "+x.T+")))", isSliceExpr)
		if lo == "0" && i.High == nil {
			return x
		}
		return tv("(substr "+x.T+" "+lo+" "+hi+")", "Str")
	}
	if i.High != nil {
		hi = f.val(i.High).T
	} else {
		hi = c.slLen(x)
	}
	// capacity is not modelled: bound by len (conservative)
	f.safe("slice", i.Pos(), r, "(and (<= 0 "+lo+") (<= "+lo+" "+hi+") (<= "+hi+" "+c.slLen(x)+"))", isSliceExpr)
	if lo == "0" && i.High == nil {
		return x
	}
	return Val{T: c.name(c.mkSlice(x.S, c.slArr(x), plus(c.slOff(x), lo), "(- "+hi+" "+lo+")"), x.S, "sl"), S: x.S, GT: i.Type()}
}

func (f *Frame) execMakeInterface(i *ssa.MakeInterface, st *State, r string) Val {
	c := f.c
	x := f.val(i.X)
	xt := i.X.Type()
	if isRefType(xt) {
		x.GT = xt
		return x
	}
	if n, ok := xt.(*types.Named); ok {
		if _, ok := n.Underlying().(*types.Struct); ok {
			// box a struct value (e.g. ParseError as error)
			ref := c.newObject(st, r, "box."+n.Obj().Name())
			c.assume(r, "(= (typeOf "+ref+") "+c.eng.tagOfType(n)+")")
			c.store(st, &Addr{Kind: aHeapObj, Base: ref, Named: n}, x)
			return Val{T: ref, S: "Int", GT: i.Type()}
		}
	}
	// scalar boxed in an interface (varargs of Sprintf): keep the value, remember its sort
	x.GT = xt
	return x
}

func (f *Frame) execConvert(i *ssa.Convert, st *State, r string) Val {
	c := f.c
	x := f.val(i.X)
	from, to := i.X.Type().Underlying(), i.Type().Underlying()
	fb, _ := from.(*types.Basic)
	tb, _ := to.(*types.Basic)
	if fb != nil && tb != nil {
		switch {
		case fb.Info()&types.IsInteger != 0 && tb.Info()&types.IsInteger != 0:
			return Val{T: x.T, S: "Int", GT: i.Type()}
		case fb.Info()&types.IsInteger != 0 && tb.Info()&types.IsString != 0:
			return tv("(runeStr "+x.T+")", "Str")
		case fb.Info()&types.IsString != 0 && tb.Info()&types.IsString != 0:
			return Val{T: x.T, S: "Str", GT: i.Type()}
		}
	}
	c.errorf("unsupported conversion %s -> %s", i.X.Type(), i.Type())
	return tv("0", c.eng.sortOf(i.Type()))
}

func (f *Frame) execTypeAssert(i *ssa.TypeAssert, st *State, r string) Val {
	c := f.c
	x := f.val(i.X)
	var ok string
	if _, isIface := i.AssertedType.Underlying().(*types.Interface); isIface {
		okc := c.fresh("implements", "Bool")
		ok = "(and (not (= " + x.T + " 0)) " + okc + ")"
	} else {
		ok = "(and (not (= " + x.T + " 0)) (= (typeOf " + x.T + ") " + c.eng.tagOfType(i.AssertedType) + "))"
	}
	if isRefType(i.AssertedType) {
		if i.CommaOk {
			// name the result (an ite here would end up inside quantifier patterns, which solvers reject)
			v := c.fresh("ta", "Int")
			c.assume(r, "(= "+v+" (ite "+ok+" "+x.T+" 0))")
			res := Val{T: v, S: "Int", GT: i.AssertedType}
			return Val{Tup: []Val{res, tv(ok, "Bool")}}
		}
		f.safe("assert", i.Pos(), r, ok, isAssertExpr)
		return Val{T: x.T, S: "Int", GT: i.AssertedType}
	}
	// asserted struct value boxed in interface
	if n, isNamed := i.AssertedType.(*types.Named); isNamed {
		if _, isStruct := n.Underlying().(*types.Struct); isStruct {
			v := c.assembleStruct(st, x.T, n)
			if i.CommaOk {
				return Val{Tup: []Val{v, tv(ok, "Bool")}}
			}
			f.safe("assert", i.Pos(), r, ok, isAssertExpr)
			return v
		}
	}
	c.errorf("unsupported type assertion to %s", i.AssertedType)
	return tv("0", "Int")
}

func (f *Frame) execPhi(i *ssa.Phi, b *ssa.BasicBlock) Val {
	c := f.c
	s := c.eng.sortOf(i.Type())
	m := c.fresh("phi", s)
	for pi, p := range b.Preds {
		es := f.out[p]
		for si, succ := range p.Succs {
			if succ == b && si < len(es) && es[si].st != nil {
				v := f.val(i.Edges[pi])
				c.fact("(=> " + es[si].cond + " (= " + m + " " + v.T + "))")
			}
		}
	}
	return Val{T: m, S: s, GT: i.Type()}
}

func (f *Frame) execNext(i *ssa.Next, st *State, r string) Val {
	c := f.c
	it := st.iters[i.Iter]
	x := f.val(i.Iter)
	if i.IsString {
		pos := it.T
		ok := "(< " + pos + " (slen " + x.T + "))"
		rn := "(runeAt " + x.T + " " + pos + ")"
		sz := "(sizeAt " + x.T + " " + pos + ")"
		np := c.fresh("itpos", "Int")
		c.assume(r, "(= "+np+" (ite "+ok+" (+ "+pos+" "+sz+") "+pos+"))")
		c.assume(r, "(=> "+ok+" (and (<= 1 "+sz+") (<= "+sz+" 4) (<= (+ "+pos+" "+sz+") (slen "+x.T+"))))")
		nit := it
		nit.T = np
		st.iters[i.Iter] = nit
		return Val{Tup: []Val{tv(ok, "Bool"), tv(pos, "Int"), tv(rn, "Int")}}
	}
	// map iteration: arbitrary unvisited key
	m := i.Iter.(*ssa.Range).X.Type().Underlying().(*types.Map)
	dom, val, _ := c.eng.mapKeys(m)
	ks, vs := c.eng.sortOf(m.Key()), c.eng.sortOf(m.Elem())
	ok := c.fresh("itok", "Bool")
	k := c.fresh("itkey", ks)
	d := "(select " + c.heapTerm(st, dom) + " " + x.T + ")"
	c.assume(r, "(=> "+ok+" (and (select "+d+" "+k+") (not (select "+it.T+" "+k+"))))")
	qk := c.fresh("qk", ks)
	_ = qk
	c.assume(r, "(=> (not "+ok+") (forall ((k! "+ks+")) (=> (select "+d+" k!) (select "+it.T+" k!))))")
	nit := it
	nit.T = c.name("(ite "+ok+" (store "+it.T+" "+k+" true) "+it.T+")", it.S, "itv")
	if len(it.Tup) == 1 {
		// number of keys visited so far; when the iteration is exhausted it equals the map's length
		_, _, lnk := c.eng.mapKeys(m)
		c.assume(r, "(=> (not "+ok+") (= "+it.Tup[0].T+" (select "+c.heapTerm(st, lnk)+" "+x.T+")))")
		c.assume(r, "(=> "+ok+" (< "+it.Tup[0].T+" (select "+c.heapTerm(st, lnk)+" "+x.T+")))")
		nit.Tup = []Val{tv("(ite "+ok+" (+ "+it.Tup[0].T+" 1) "+it.Tup[0].T+")", "Int")}
	}
	st.iters[i.Iter] = nit
	v := Val{T: "(select (select " + c.heapTerm(st, val) + " " + x.T + ") " + k + ")", S: vs, GT: m.Elem()}
	kv := Val{T: k, S: ks, GT: m.Key()}
	c.assumeTyped(st, r, v, m.Elem())
	c.assumeTyped(st, r, kv, m.Key())
	return Val{Tup: []Val{tv(ok, "Bool"), kv, v}}
}

// closureDefines assumes the `define F(self) == expr` clauses of a closure's contract at its creation.
// This is a definitional extension: self is a fresh reference, F an uninterpreted spec function.
// The captured variables mentioned must be assigned exactly once (checked syntactically).
func (f *Frame) closureDefines(i *ssa.MakeClosure, fn *ssa.Function, ref string, st *State, r string) {
	c := f.c
	fc := c.eng.cs.Funcs[c.eng.keyOf[fn]]
	if fc == nil || len(fc.Defines) == 0 {
		return
	}
	for _, b := range i.Bindings {
		a, ok := b.(*ssa.Alloc)
		if !ok {
			continue
		}
		stores := 0
		for _, ref := range *a.Referrers() {
			if s, ok := ref.(*ssa.Store); ok && s.Addr == ssa.Value(a) {
				stores++
			}
		}
		for _, blk := range fn.Blocks {
			for _, ins := range blk.Instrs {
				if s, ok := ins.(*ssa.Store); ok {
					if fv, ok := s.Addr.(*ssa.FreeVar); ok && fv.Name() == a.Comment {
						stores++
					}
				}
			}
		}
		if stores > 1 {
			c.errorf("captured variable %s of closure %s is assigned more than once; define clauses are unsound", a.Comment, c.eng.keyOf[fn])
			return
		}
	}
	ev := f.evalCtx(st, r)
	ev.vars["self"] = SVal{T: ref, S: "Int"}
	for _, d := range fc.Defines {
		g, err := ev.evalBool(d.Expr)
		if err != nil {
			c.errorf("%s: define at closure creation: %v", d.Where, err)
			continue
		}
		c.assume(r, g)
	}
}

type predEdge struct {
	blk *ssa.BasicBlock
	e   edge
}

func isTrivialJoin(b *ssa.BasicBlock) bool {
	for _, ins := range b.Instrs {
		switch ins.(type) {
		case *ssa.DebugRef, *ssa.Jump:
		default:
			return false
		}
	}
	return len(b.Succs) == 1
}

// expandJoin lists the edges entering a pure join block, looking through nested pure join blocks.
func (f *Frame) expandJoin(b *ssa.BasicBlock) []predEdge {
	var out []predEdge
	for _, p := range b.Preds {
		es := f.out[p]
		for si, s := range p.Succs {
			if s != b || si >= len(es) || es[si].st == nil {
				continue
			}
			if isTrivialJoin(p) && len(p.Preds) > 1 && f.loops[p] == nil {
				out = append(out, f.expandJoin(p)...)
			} else {
				out = append(out, predEdge{p, es[si]})
			}
		}
	}
	return out
}

// fnParamModKeys: heap keys a call through a contracted function parameter may modify, read off the
// contract's modifies clauses (spec functions returning a map, e.g. RegMap(self)).
func (f *Frame) fnParamModKeys(v ssa.Value) ([]string, bool) {
	if f.fc == nil {
		return nil, false
	}
	name := ""
	switch p := v.(type) {
	case *ssa.UnOp:
		if a, ok := p.X.(*ssa.Alloc); ok {
			name = a.Comment
		}
	case *ssa.Parameter:
		name = p.Name()
	}
	k, ok := f.fc.FnParams[name]
	if !ok {
		return nil, false
	}
	kfc := f.c.eng.cs.Funcs[k]
	if kfc == nil {
		return nil, false
	}
	var out []string
	for _, cl := range kfc.Modifies {
		for _, e := range cl.Exprs {
			if e.Op == "call" {
				if sf, ok := f.c.eng.cs.Specs[e.Name]; ok {
					_, gt := f.c.eng.resolveType(sf.Pkg, sf.Result)
					if gt != nil {
						if m, ok := gt.Underlying().(*types.Map); ok {
							a, b, c := f.c.eng.mapKeys(m)
							out = append(out, a, b, c)
							continue
						}
					}
				}
			}
			return nil, false
		}
	}
	return out, true
}


// rightCat builds the concatenation of two string terms right-nested: ((a + b) + c) and (a + (b + c)) get the same
// term, the one the definition of a Sprintf format uses.
func rightCat(x, y string) string {
	if strings.HasPrefix(x, "(sconcat ") && strings.HasSuffix(x, ")") {
		body := x[len("(sconcat ") : len(x)-1]
		// split body into its two top-level arguments
		depth := 0
		for i := 0; i < len(body); i++ {
			switch body[i] {
			case '(':
				depth++
			case ')':
				depth--
			case ' ':
				if depth == 0 {
					a, b := body[:i], body[i+1:]
					if a != "" && b != "" && balanced(a) && balanced(b) {
						return "(sconcat " + a + " " + rightCat(b, y) + ")"
					}
					return "(sconcat " + x + " " + y + ")"
				}
			}
		}
	}
	return "(sconcat " + x + " " + y + ")"
}

func balanced(t string) bool {
	d := 0
	for i := 0; i < len(t); i++ {
		if t[i] == '(' {
			d++
		} else if t[i] == ')' {
			d--
			if d < 0 {
				return false
			}
		} else if t[i] == ' ' && d == 0 {
			return false
		}
	}
	return d == 0
}


// unrollable: no SSA value defined inside the loop is used outside it (values of the last turn would otherwise stand
// for those of every turn), and the loop contains no other loop.
func (f *Frame) unrollable(li *loopInfo) bool {
	for b := range li.blocks {
		if b != li.header && f.loops[b] != nil {
			return false
		}
		for _, ins := range b.Instrs {
			v, ok := ins.(ssa.Value)
			if !ok {
				continue
			}
			if _, isAlloc := ins.(*ssa.Alloc); isAlloc {
				continue
			}
			if refs := v.Referrers(); refs != nil {
				for _, r := range *refs {
					if rb := r.Block(); rb != nil && !li.blocks[rb] {
						return false
					}
				}
			}
		}
	}
	return true
}
