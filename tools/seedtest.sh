#!/bin/bash
# usage: seedtest.sh <seed-id> <worktree> <demo-package-dir> "<checks to run>"
# Confirms a seeded change (builds, existing tests pass, demo fails with / passes without), then runs the given checks on /repo with the patch applied.
set -u
id=$1; wt=$2; pkg=$3; checks=$4
export GOFLAGS=-mod=mod GOPROXY=off GOSUMDB=off GOTOOLCHAIN=local
mkdir -p /verif/seeded/$id
cp $wt/_seed/patch.diff /verif/seeded/$id/patch.diff
cp $wt/_seed/demo_test.go /verif/seeded/$id/demo_test.go
cp $wt/_seed/notes.md /verif/seeded/$id/notes.md 2>/dev/null
cd $wt
echo "== with change: build + existing tests"
(go build ./... && go test -vet=off -count=1 ./... 2>&1 | grep -v 'no test files') ; suite=$?
cp _seed/demo_test.go $pkg/zz_demo_test.go
echo "== demo with change (expect FAIL)"
go test -vet=off -count=1 ./$pkg 2>&1 | tail -3; 
git stash -q
echo "== demo without change (expect ok)"
go test -vet=off -count=1 ./$pkg 2>&1 | tail -2
git stash pop -q
rm -f $pkg/zz_demo_test.go
echo "== checks on /repo with the patch"
[ -z "$(git -C /repo status --short)" ] || { echo "REFUSING: /repo has uncommitted changes"; exit 1; }
cd /repo && git apply /verif/seeded/$id/patch.diff || { echo "PATCH DOES NOT APPLY"; exit 1; }
for c in $checks; do (cd /verif && ./check $c quick 2>&1 | grep -E 'VIOLATION|property ' | cut -c1-260); done
git -C /repo checkout -- .
git -C /repo status --short | head -3
