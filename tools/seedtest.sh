#!/bin/bash
# usage: seedtest.sh <seed-id> <dir with _seed/{patch.diff,demo_test.go,notes.md}> <demo-package-dir> "<checks to run>"
# Confirms a seeded change on a clean scratch copy of /repo (builds, existing tests pass, demo fails with / passes
# without the patch), stores it under /verif/seeded/<id>, then runs the given checks on /repo with the patch applied.
set -u
id=$1; wt=$2; pkg=$3; checks=$4
export GOFLAGS=-mod=mod GOPROXY=off GOSUMDB=off GOTOOLCHAIN=local
mkdir -p /verif/seeded/$id
cp $wt/_seed/patch.diff /verif/seeded/$id/patch.diff
cp $wt/_seed/demo_test.go /verif/seeded/$id/demo_test.go
cp $wt/_seed/notes.md /verif/seeded/$id/notes.md 2>/dev/null
scratch=$(mktemp -d /tmp/seedtest-XXXX)
trap 'rm -rf $scratch' EXIT
rsync -a --exclude .git /repo/ $scratch/repo/
cd $scratch/repo
cp /verif/seeded/$id/demo_test.go $pkg/zz_demo_test.go
echo "== demo without change (expect ok)"
go test -vet=off -count=1 ./$pkg 2>&1 | tail -2
patch -p1 -s -i /verif/seeded/$id/patch.diff || { echo "PATCH DOES NOT APPLY"; exit 1; }
echo "== demo with change (expect FAIL)"
go test -vet=off -count=1 ./$pkg 2>&1 | tail -3
rm -f $pkg/zz_demo_test.go
echo "== with change: build + existing tests"
(go build ./... && go test -vet=off -count=1 ./... 2>&1 | grep -v 'no test files')
echo "== checks on /repo with the patch"
/verif/tools/scratchrun.sh /verif/seeded/$id/patch.diff "$checks"
