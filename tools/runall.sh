#!/bin/sh
# runs every claimed check (quick) on the current tree, regenerating evidence; prints a summary
cd /verif
ids=$(python3 -c "import json;print(' '.join(c['property_id'] for c in json.load(open('MANIFEST.json'))['checks']))")
rc=0
for id in $ids; do
  out=$(./check $id ${1:-quick} 2>&1); st=$?
  echo "$id exit=$st $(echo "$out" | tail -1)"
  if [ $st -ne 0 ]; then rc=1; echo "$out" | grep -E 'VIOLATION|govc:' | head -5; fi
done
/opt/veriftools/pyvenv/bin/python - <<'PY'
import json,glob,jsonschema
sch=json.load(open('/root/.vp/EVIDENCE.schema.json'))
for f in sorted(glob.glob('/verif/evidence/*.json')):
    try:
        jsonschema.validate(json.load(open(f)),sch)
    except Exception as e:
        print('INVALID',f,str(e)[:200])
jsonschema.validate(json.load(open('/verif/MANIFEST.json')),json.load(open('/root/.vp/MANIFEST.schema.json')))
print('schemas ok')
PY
exit $rc
