#!/usr/bin/env python3
"""One-off generator of the uniform ParseFrame contracts appended to /repo/parser/contracts_verif.go
(kept for reference; the generated text lives in the hook file and is edited by hand afterwards)."""
# (header text, error-result index or None, extra)
funcs = [
 ("(p *Parser) expectPeekVarOrAutoVar", 3, ""),
 ("(p *Parser) parseTopLevelStatement", 1, "MAPS"),
 ("(p *Parser) addImplicitData", None, "MAPS"),
 ("(p *Parser) addImplicitTexts", None, "MAPS"),
 ("(p *Parser) addImplicitMovements", None, "MAPS"),
 ("(p *Parser) parseScriptStatement", 2, ""),
 ("(p *Parser) parseBlockStatement", 2, ""),
 ("(p *Parser) parseSwitchBlockStatement", 2, ""),
 ("(p *Parser) parseStatement", 2, ""),
 ("(p *Parser) parseCommandStatement", 2, ""),
 ("(p *Parser) tryParseLabelStatement", None, ""),
 ("(p *Parser) parseRawStatement", 1, ""),
 ("(p *Parser) parseTextStatement", 1, ""),
 ("(p *Parser) parseTextValue", 2, ""),
 ("(p *Parser) parsePoryswitchHeader", 2, ""),
 ("(p *Parser) parsePoryswitchTextCases", 2, ""),
 ("(p *Parser) parsePoryswitchTextStatement", 2, ""),
 ("(p *Parser) parseMovementStatement", 1, ""),
 ("parseMovementValue", 1, ""),
 ("parseMovementValue$1", 1, "IMPL"),
 ("(p *Parser) parsePoryswitchListStatement", 1, "FNP"),
 ("(p *Parser) parsePoryswitchListCases", 1, "FNP"),
 ("(p *Parser) parseMartStatement", 1, ""),
 ("parseMartValue", 1, "IMPL"),
 ("(p *Parser) parseMapscriptsStatement", 2, ""),
 ("(p *Parser) parseMovesOperator", 1, ""),
 ("(p *Parser) parseFormatStringOperator", 3, ""),
 ("(p *Parser) parseIfStatement", 2, ""),
 ("(p *Parser) parseWhileStatement", 2, ""),
 ("(p *Parser) parseDoWhileStatement", 2, ""),
 ("(p *Parser) parseBreakStatement", 1, ""),
 ("(p *Parser) parseContinueStatement", 1, ""),
 ("(p *Parser) parseSwitchStatement", 3, ""),
 ("(p *Parser) parseConditionExpression", 2, ""),
 ("(p *Parser) parseBooleanExpression", 2, ""),
 ("(p *Parser) parseRightSideExpression", 2, ""),
 ("(p *Parser) parseLeafBooleanExpression", 2, ""),
 ("(p *Parser) parseConditionVarOperator", 0, ""),
 ("(p *Parser) parseConditionFlagLikeOperator", 0, ""),
 ("(p *Parser) parsePoryswitchStatement", 2, ""),
 ("(p *Parser) parsePoryswitchStatementCases", 2, ""),
 ("(p *Parser) parsePoryswitchStatements", 2, ""),
 ("(p *Parser) parseConstant", 0, "MAPS"),
]
out=['''
// ---- the recursive-descent parser: uniform frame / state contract (C18, C20) ----

//@ pred StackOK(s seq[ast.Statement]) = len(s) >= 0 && (forall k int :: {s[k]} (0 <= k && k < len(s)) ==> s[k] != nil)
//@ pred SameStack(a seq[ast.Statement], b seq[ast.Statement]) = len(a) == len(b) && (forall k int :: {a[k]} {b[k]} (0 <= k && k < len(a)) ==> a[k] == b[k])
// parser state every parse function relies on and re-establishes
//@ pred PState(p *Parser) = PInv(p) && StackOK(p.breakStack) && StackOK(p.continueStack)
//@   && p.constants != nil && p.inlineTextsSet != nil && p.inlineTextCounts != nil && p.inlineMovementsSet != nil && p.inlineMovementCounts != nil
//@ pred PSame(p *Parser, l0 *lexer.Lexer, in0 string) = p.l == l0 && p.l.input == in0

//@ func ParseFrame
//@   nobody
//@   params p
//@   requires [C18:pstate] PState(p)
//@   modifies fields(p), fields(p.l)
//@   ensures [C18:pstate] PState(p) && PSame(p, old(p.l), old(p.l.input))
//@   loopinv [C18:pstate-inv] PState(p) && PSame(p, old(p.l), old(p.l.input))
//@ end

//@ func ListParserFn
//@   nobody
//@   params p, allowMultiple
//@   include ParseFrame
//@ end
''']
for hdr, ei, extra in funcs:
    out.append("//@ func "+hdr)
    out.append("//@   include ParseFrame")
    if extra=="MAPS":
        out.append("//@   modifies p.constants, p.inlineTextsSet, p.inlineTextCounts, p.inlineMovementsSet, p.inlineMovementCounts, allof(ast.CommandStatement.Args)")
    if extra=="IMPL":
        out.append("//@   implements ListParserFn")
    if extra=="FNP":
        out.append("//@   fnparam parseFunc implements ListParserFn")
    if ei is not None:
        out.append("//@   ensures [C20:stack-balanced] result%d == nil ==> (SameStack(p.breakStack, old(p.breakStack)) && SameStack(p.continueStack, old(p.continueStack)))" % ei)
        out.append("//@   loopinv [C20:stack-balanced-inv] SameStack(p.breakStack, old(p.breakStack)) && SameStack(p.continueStack, old(p.continueStack))")
    out.append("//@ end")
    out.append("")
open('/repo/parser/contracts_verif.go','a').write('\n'.join(out)+'\n')
