#!/bin/bash
# usage: seedrun.sh <seed-id> "<checks>"   applies seeded/<id>/patch.diff to /repo, runs the checks, restores /repo
id=$1; checks=$2
[ -z "$(git -C /repo status --short)" ] || { echo "REFUSING: /repo has uncommitted changes"; exit 1; }
cd /repo && git apply /verif/seeded/$id/patch.diff || { echo "PATCH DOES NOT APPLY"; exit 1; }
for c in $checks; do (cd /verif && ./check $c quick 2>&1 | grep -E 'VIOLATION|^property ' | sed 's/replay=[^ ]* //' | cut -c1-230); done
git -C /repo checkout -- .
# evidence files are rewritten by every run: restore the committed ones (they must describe the clean tree)
git -C /verif checkout -- evidence 2>/dev/null
