#!/usr/bin/env python3
"""Regenerates /verif/MANIFEST.json from tools/claims.json (one entry per property)."""
import json, os
V = '/verif'
props = [json.loads(l) for l in open(f'{V}/properties.jsonl')]
claims = json.load(open(f'{V}/tools/claims.json'))
hooks = claims.get('_hooks', {})
import subprocess
try:
    _out = subprocess.run(['git', '-C', '/repo', 'log', '--reverse', '--format=%h', '--', 'lexer/contracts_verif.go', 'parser/contracts_verif.go', 'emitter/contracts_verif.go'], capture_output=True, text=True).stdout.split()
    _fix = subprocess.run(['git', '-C', '/repo', 'log', '--reverse', '--format=%h %s'], capture_output=True, text=True).stdout.splitlines()
    if _out:
        hooks = dict(hooks)
        hooks['source_commits'] = _out
        hooks['fix_commits'] = [l.split()[0] for l in _fix if l.split(' ', 1)[1].startswith('fix:')]
except Exception:
    pass
m = {
 "version": 1,
 "setup_cmd": "cd /verif/govc && GOFLAGS=-mod=mod GOPROXY=off GOSUMDB=off GOTOOLCHAIN=local go build -o /verif/bin/govc .",
 "hooks": {"guard": "verif",
           "enable": "govc loads /repo with -tags verif; the hook files /repo/{lexer,parser,emitter}/contracts_verif.go are comment-only (//go:build verif, package clause, //@ contract lines)",
           "baseline_off_cmd": "cd /repo && go test -vet=off -count=1 ./...",
           "source_commits": hooks.get('source_commits', []),
           "add_only": True,
           "note": "source_commits: every commit that touches the three comment-only contract files (messages start with 'verif:' or 'contracts:'); they add or change //@ lines only. The unguarded 'fix:' commits (repairs of genuine defects, listed in known_findings.json) are: " + ", ".join(hooks.get('fix_commits', []))},
 "engines": [{"name": "govc", "path": "/verif/govc",
              "serves_properties": sorted(k for k in claims if not k.startswith('_') and claims[k].get('claim')),
              "kind_free_text": "contract-based deductive verification: VC generator over go/ssa (NaiveForm) of the real code, contracts as //@ comments behind build tag verif, obligations discharged by z3 5.1 / z3 4.8 / cvc5 (unsat only)"}],
 "checks": [], "not_applicable": [],
 "notes": "see DESIGN.md; known findings in known_findings.json; obligations baseline in obligations.baseline.json"
}
for p in props:
    c = claims.get(p['id'], {})
    if c.get('claim'):
        m['checks'].append({
            "property_id": p['id'],
            "quick_cmd": f"./check {p['id']} quick",
            "thorough_cmd": f"./check {p['id']} thorough",
            "evidence_file": f"/verif/evidence/{p['id']}.json",
            "replay_cmd_template": "cat {path}",
            "engine": "govc",
            "level_claimed": {"category": "proof", "text": c['text'], "design_ref": c.get('design_ref', 'DESIGN.md section 6 ' + p['id'])},
            "level_note": c['note'],
            "technique": c.get('technique', "contract-based deductive verification (SMT-discharged VCs over go/ssa of the real code)"),
        })
    else:
        m['not_applicable'].append({"property_id": p['id'], "reason": c.get('reason', 'no contract-level check built yet for this property (see DESIGN.md section 12)')})
json.dump(m, open(f'{V}/MANIFEST.json', 'w'), indent=1)
print('checks:', [c['property_id'] for c in m['checks']])
