#!/bin/bash
# usage: scratchrun.sh <patch.diff> "<property ids>"
# Applies the patch to a scratch copy of /repo (outside /repo and /verif, removed afterwards) and runs the quick
# checks of the given properties on it with a scratch verification directory; /repo and /verif/evidence stay untouched.
set -u
patch=$1; props=$2
export GOFLAGS=-mod=mod GOPROXY=off GOSUMDB=off GOTOOLCHAIN=local
tmp=$(mktemp -d /tmp/scratchrun-XXXX)
trap 'rm -rf $tmp' EXIT
mkdir -p $tmp/verif
rsync -a --exclude .git /repo/ $tmp/repo/
(cd $tmp/repo && patch -p1 -s -i $patch) || { echo "PATCH DOES NOT APPLY"; exit 1; }
(cd $tmp/repo && go build ./... ) || { echo "DOES NOT BUILD"; exit 1; }
for d in spec harness; do rsync -a /verif/$d/ $tmp/verif/$d/; done
cp /verif/obligations.baseline.json /verif/names.baseline.json /verif/known_findings.json $tmp/verif/
for p in $props; do
  GOVC_MUTANT=${GOVC_MUTANT-1} /verif/bin/govc check -repo $tmp/repo -verif $tmp/verif -property $p -tier quick 2>&1 | grep -E 'VIOLATION|^property |govc: engine' | sed 's/replay=[^ ]* //' | cut -c1-260
done
