#!/bin/bash
# usage: scratchrun.sh <patch.diff> "<property ids>"
# Applies the patch to a scratch copy of /repo (outside /repo and /verif, removed afterwards) and runs the quick
# checks of the given properties on it with a scratch verification directory; /repo and /verif/evidence stay untouched.
set -u
patch=$1; props=$2
REPO=${REPO:-/repo}; VERIF=${VERIF:-/verif}; GOVC=${GOVC:-$VERIF/bin/govc}
export GOFLAGS=-mod=mod GOPROXY=off GOSUMDB=off GOTOOLCHAIN=local
tmp=$(mktemp -d /tmp/scratchrun-XXXX)
trap 'rm -rf $tmp' EXIT
mkdir -p $tmp/verif
rsync -a --exclude .git $REPO/ $tmp/repo/
(cd $tmp/repo && patch -p1 -s -i $patch) || { echo "PATCH DOES NOT APPLY"; exit 1; }
(cd $tmp/repo && go build ./... ) || { echo "DOES NOT BUILD"; exit 1; }
for d in spec harness; do rsync -a $VERIF/$d/ $tmp/verif/$d/; done
cp $VERIF/obligations.baseline.json $VERIF/names.baseline.json $VERIF/known_findings.json $tmp/verif/
for p in $props; do
  GOVC_MUTANT=${GOVC_MUTANT-1} $GOVC check -repo $tmp/repo -verif $tmp/verif -property $p -tier quick 2>&1 | grep -E 'VIOLATION|^property |govc: engine' | sed 's/replay=[^ ]* //' | cut -c1-260
done
